"""C11 — cached recurrences behave like uncached ones under any interleaving.

Classes
  coop     one thread; 2-4 live iterators and queries interleaved by the
           generated operation order (cooperative tasks)
  threads  2-4 real threads, pre-empted at every source line of rrule.py and
           at every lock operation by the seeded scheduler
"""
import os

from dsim import boot
from dsim.kernel import K, Scheduler, Deadlock, BudgetExceeded
from . import rulelib as RL
from dsim import depth as DP

PROPERTY = "C11"
SRC_DIR = None      # filled by bin/check.py after boot
KNOWN_PREDICATES = {}
LEVEL_TEXT = ("Seeded search over interleavings: cooperative interleavings of 2-4 live iterators and queries on one cached rule/set in one thread, and 2-4 real threads pre-empted at every source line of rrule.py and at every lock operation by a seeded scheduler (random, pre-emption-bounded, PCT). Every yielded value and query answer is compared with the uncached twin's list; deadlock (no runnable task / re-acquire of a held simulated lock) and step-budget overrun are liveness violations. Sampling, not enumeration."
    ' Session 3 added: calibrated pre-emption points (a dry run measures the schedule), aware datetimes, longer rules and more iterators/threads in the deep part of the thorough tier.')
LEVEL_NOTE = ('Trusted: the uncached twin as reference (rule expansion itself is C01, not judged here); pre-emption at source-line granularity inside rrule.py only; CPython 3.12 sys.monitoring; SimLock models _thread.lock.')
TECHNIQUE = ('deterministic simulation: seeded thread/iterator schedules over simulated locks, checked against a sequential list model')

REAL = ['dateutil.rrule from /repo/src', 'real OS threads (parked; one runs at a time)', 'CPython 3.12 generators']
STUB = ['the cache mutex (SimLock via six.moves._thread)', 'thread scheduling (seeded baton passing at sys.monitoring LINE events of rrule.py and at lock operations)', 'iterator scheduling in the coop class (generated operation order)']

CLASSES = {
    "coop":    dict(quick=20000, thorough=500000, timeout=30),
    "threads": dict(quick=12000, thorough=300000, timeout=40),
}


def TARGET_FILES(cls):
    return ["rrule.py"]


# ---------------------------------------------------------------------------
# generation
# ---------------------------------------------------------------------------

def gen_target(rng):
    r = rng.random()
    if r < 0.05:
        return RL.gen_terminal_rule(rng, cache=True)
    if r < 0.45:
        return RL.gen_rule(rng, cache=True)
    if r < 0.60:
        return RL.gen_unbounded_rule(rng, cache=True)
    if r < 0.85:
        return RL.gen_set(rng, cache=True, member_cache_p=0.3)
    # uncached set over cached member rules
    sp = RL.gen_set(rng, cache=False, member_cache_p=1.0)
    if not sp["rrules"]:
        sp["rrules"].append(RL.gen_family_rule(rng, sp["base"], cache=True))
    return sp


def gen_client_ops(rng, n, nhandles, finite, prefix=""):
    ops = []
    live = []
    for _ in range(n):
        r = rng.random()
        if (r < 0.22 and len(live) < nhandles) or not live and r < 0.5:
            h = "%s%d" % (prefix, len([o for o in ops
                                       if o[0] in ("iter", "xiter")]))
            if rng.random() < 0.2:
                ops.append(["xiter", h, RL.gen_ref(rng),
                            rng.choice([None, 1, 2, 5, 12, 25]),
                            rng.random() < 0.5])
            else:
                ops.append(["iter", h])
            live.append(h)
        elif r < 0.62 and live:
            h = rng.choice(live)
            ops.append(["next", h, rng.choice([1, 1, 1, 2, 3, 9, 10, 11])])
        elif r < 0.72 and live:
            h = rng.choice(live)
            ops.append(["drain", h])
        elif r < 0.77 and live:
            h = rng.choice(live)
            ops.append(["close", h])
            live.remove(h)
        else:
            ops.append(RL.gen_query(rng, finite=finite))
    return ops


RAISING = [
    # the generator raises ValueError on its first step
    dict(freq=5, interval=1440, byhour=[5], dtstart=[2000, 1, 1, 3, 0, 0],
         cache=True),
    # ... after 27 occurrences (the last week of 9999 reaches into 10000)
    dict(freq=2, interval=1, dtstart=[9999, 6, 27, 8, 0, 0], cache=True),
    dict(freq=2, interval=2, dtstart=[9999, 10, 9, 16, 0, 0], cache=True),
]


def generate(cls, rng):
    if cls == "coop" and rng.random() < 0.02:
        # a rule whose own generator raises while the cache is being filled:
        # there is no list to compare with, but every operation must still
        # COMPLETE (return or raise) -- liveness only
        return dict(target=dict(rng.choice(RAISING), raising=True),
                    aware=False,
                    ops=[["rz", rng.choice(["list", "count", "first",
                                            "slice", "drain2"])]
                         for _ in range(rng.randrange(2, 7))])
    target = gen_target(rng)
    finite = not target.get("unbounded")
    aware = rng.random() < 0.08
    if cls == "coop":
        return dict(target=target, aware=aware,
                    ops=gen_client_ops(rng,
                                       rng.randrange(3, DP.pick(40, 120)),
                                       rng.choice(DP.pick([2, 2, 3, 4],
                                                          [3, 4, 5, 6])),
                                       finite))
    nthreads = rng.choice(DP.pick([2, 2, 3, 4], [3, 4, 4, 5]))
    threads = [gen_client_ops(rng, rng.randrange(1, DP.pick(9, 16)),
                              DP.pick(2, 3), finite)
               for _ in range(nthreads)]
    kind = rng.choice(["random", "random", "pb", "pbx", "pbx", "pct", "crit"])
    if kind == "pbx":
        strat = dict(kind="pbx", k=rng.choice([1, 1, 2, 3]))
    elif kind == "crit":
        strat = dict(kind="crit", k=rng.choice([1, 2, 3]),
                     q=rng.choice([0.05, 0.15, 0.4]),
                     p=rng.choice([0.0, 0.02, 0.1]))
    elif kind == "random":
        strat = dict(kind="random", p=rng.choice([0.02, 0.05, 0.1, 0.3, 1.0]))
    elif kind == "pb":
        strat = dict(kind="pb", k=rng.choice([0, 1, 2, 3]),
                     horizon=rng.choice([100, 400, 1500]))
    else:
        strat = dict(kind="pct", d=rng.choice([1, 2, 3, 4]),
                     horizon=rng.choice([100, 400, 1500]))
    return dict(target=target, threads=threads, aware=aware,
                sched=dict(strategy=strat, seed=rng.getrandbits(32)))


# ---------------------------------------------------------------------------
# execution
# ---------------------------------------------------------------------------

def _abstract(target, clients):
    cache = getattr(target, "_cache", None)
    lock = getattr(target, "_cache_lock", None)
    live = sum(c.live_started() for c in clients)
    return (min(len(cache) // 10, 5) if cache is not None else -1,
            (len(cache) % 10 == 0) if cache is not None else None,
            bool(getattr(target, "_cache_complete", False)),
            bool(lock.locked()) if lock is not None else None,
            min(live, 4))


def op_budget(L):
    return RL.budget_for(RL.LAST_MODEL_COST)


def execute(cls, scenario, ctx):
    tspec = scenario["target"]
    if scenario.get("aware"):
        RL.AWARE_OFFSETS = [0, -360, 720]
        ctx.probe("aware_datetimes")
    if tspec.get("raising"):
        return execute_raising(scenario, ctx)
    unbounded = bool(tspec.get("unbounded"))
    try:
        L = RL.model_list(tspec, bound=120)
    except RL.ModelTooCostly:
        ctx.event("model-too-costly")
        ctx.count("skipped_costly")
        return
    base = RL.dt(tspec.get("dtstart") or tspec.get("base"))
    target = RL.build_target(tspec)
    ctx.event("target", tspec.get("kind", "rule"), len(L), unbounded)
    if cls == "coop":
        cl = RL.Client(ctx, target, L, base, "main", unbounded)
        fills_with_live = 0
        for op in scenario["ops"]:
            K.set_budget(op_budget(L))
            before_len = len(getattr(target, "_cache", None) or ())
            live = cl.live_started()
            try:
                cl.do(op)
            except Deadlock as e:
                ctx.violation("liveness.deadlock",
                              dict(op=op, msg=str(e), mode="single-thread"))
            except BudgetExceeded as e:
                ctx.violation("liveness.budget", dict(op=op, msg=str(e)))
            finally:
                K.set_budget(None)
            after_len = len(getattr(target, "_cache", None) or ())
            if after_len > before_len and live >= 1:
                fills_with_live += 1
            ctx.state(*_abstract(target, [cl]))
        if fills_with_live and len(cl.its) + fills_with_live >= 2:
            ctx.nontrivial = True
        if getattr(target, "_cache_complete", False) and cl.live_started():
            ctx.probe("completed_while_other_iterator_live")
        _quiesce(ctx, target, L, base, unbounded)
        return
    # threads ------------------------------------------------------------
    st = scenario["sched"]
    nops = sum(len(p) for p in scenario["threads"])
    sched = Scheduler(st["strategy"], st.get("seed", 0),
                      tape=st.get("tape"),
                      max_steps=op_budget(L) * (nops + 2))
    clients = []
    for i, prog in enumerate(scenario["threads"]):
        cl = RL.Client(ctx, target, L, base, "T%d" % i, unbounded)
        clients.append(cl)

        def body(cl=cl, prog=prog):
            for op in prog:
                cl.do(op)
                with K.mute():
                    ctx.state(*_abstract(target, clients))
        sched.spawn(body, cl.name)
    try:
        sched.run()
    finally:
        ctx.sched_summary = sched.summary()
    if sched.switches >= 1 and len(scenario["threads"]) >= 2:
        ctx.nontrivial = True
    ctx.count("strategy." + st["strategy"]["kind"])
    _quiesce(ctx, target, L, base, unbounded)


def execute_raising(scenario, ctx):
    spec = dict(scenario["target"])
    spec.pop("raising")
    target = RL.build_rule(spec)
    its = []
    for op in scenario["ops"]:
        K.set_budget(400000)
        try:
            k = op[1]
            if k == "list":
                list(target)
            elif k == "count":
                target.count()
            elif k == "first":
                its.append(iter(target))
                next(its[-1])
            elif k == "slice":
                target[2:30:3]
            else:
                for it in its[-2:]:
                    for _ in it:
                        pass
            ctx.event("rz", k, "returned")
        except Deadlock as e:
            ctx.violation("liveness.deadlock",
                          dict(op=op, msg=str(e), mode="single-thread",
                               after="the rule's generator raised"))
        except BudgetExceeded as e:
            ctx.violation("liveness.budget", dict(op=op, msg=str(e)))
        except Exception as e:
            ctx.probe("generator_raised_during_fill")
            ctx.event("rz", op[1], type(e).__name__)
        finally:
            K.set_budget(None)
        ctx.checks += 1
    ctx.nontrivial = True


def _quiesce(ctx, target, L, base, unbounded):
    """After the last operation a fresh pass must still see the model."""
    K.set_budget(op_budget(L))
    try:
        cl = RL.Client(ctx, target, L, base, "quiesce", unbounded)
        if unbounded:
            cl.do(["iter", "q"])
            cl.do(["next", "q", 30])
        else:
            cl.do(["list"])
            cl.do(["count"])
            cl.do(["iter", "q"])
            cl.do(["drain", "q"])
    except Deadlock as e:
        ctx.violation("liveness.deadlock",
                      dict(op="quiesce", msg=str(e), mode="single-thread"))
    except BudgetExceeded as e:
        ctx.violation("liveness.budget", dict(op="quiesce", msg=str(e)))
    finally:
        K.set_budget(None)


# ---------------------------------------------------------------------------
# shrinking support
# ---------------------------------------------------------------------------

def simplify(cls, scenario):
    """Yield structurally simpler variants of the scenario."""
    import copy
    t = scenario["target"]
    if t.get("kind") == "set":
        for role in ("exdates", "exrules", "rdates", "rrules"):
            for i in range(len(t[role])):
                c = copy.deepcopy(scenario)
                del c["target"][role][i]
                yield c
    else:
        for key in ("byweekday", "bymonthday"):
            if key in t:
                c = copy.deepcopy(scenario)
                del c["target"][key]
                yield c
        if t.get("interval", 1) != 1:
            c = copy.deepcopy(scenario)
            c["target"]["interval"] = 1
            yield c
        if t.get("count"):
            for n in (1, 2, 10, 11, t["count"] - 1):
                if 0 <= n < t["count"]:
                    c = copy.deepcopy(scenario)
                    c["target"]["count"] = n
                    yield c
