"""C10 — rruleset is (rrules U rdates) - (exrules U exdates), whatever the
history of member additions, partial iterations and queries, cache on or off.

The "nodes" are live iterators over one set; the generated operation order
decides which one advances and where mutations land. Every run is mirrored on
a cached and an uncached set that receive the same operations (cached member
rules are shared between the two sets).
"""
import copy

from dsim.kernel import K, Deadlock, BudgetExceeded
from . import rulelib as RL
from dsim import depth as DP

PROPERTY = "C10"
SRC_DIR = None
KNOWN_PREDICATES = {}
LEVEL_TEXT = ('Seeded search over mutation/iteration histories: member additions (rules, dates, exclusions; cached members shared between sets) interleaved with creation, partial advance, abandonment and exhaustion of up to three live iterators and with queries, mirrored on a cached and an uncached rruleset. Everything started after a mutation must equal the set-algebra model recomputed from the members present; iterators created before it keep being advanced (to expose interference) but their own output is not judged.'
    ' Session 3 added: timezone-aware runs whose members are spelled in three different UTC offsets, recurrence sets as members of the set, a member object added twice or to both roles, queries aimed at member instants that an exclusion removes, sub-second listed dates, the first representable instants.')
LEVEL_NOTE = ('Trusted: uncached listing of each member rule (C01 not judged); Python set/sorted as the set algebra. Single-threaded histories only, as the property states.')
TECHNIQUE = ('deterministic simulation of mutation/iteration histories against a set-algebra reference model')

REAL = ['dateutil.rrule (rrule, rruleset) from /repo/src', 'CPython 3.12 generators, heapq']
STUB = ['the cache mutex (SimLock)', 'iterator scheduling: the generated operation order decides which live iterator advances and where mutations land']

CLASSES = {
    "hist": dict(quick=30000, thorough=800000, timeout=30),
}

RULE = ("one evaluation = one generated history of member additions, "
        "iterator creations/advances/abandonments and queries, mirrored on a "
        "cached and an uncached rruleset; non-trivial = at least one addition "
        "made while an iterator of the set was live (started, not exhausted) "
        "and at least one judged iteration or query after it; distinct = "
        "distinct SHA-1 of the full event history")
EXPECTED_PROBES = ["add_while_iterator_live", "stale_iterator_advanced",
                   "stale_iterator_exhausted_after_mutation",
                   "coinciding_inclusion", "excluded_occurrence",
                   "process_tz_with_dst_and_gap_hour_dates"]

ROLES = ["rrule", "rdate", "exrule", "exdate"]


def TARGET_FILES(cls):
    return ["rrule.py"]


def gen_member(rng, role, base):
    if role in ("rrule", "exrule") and rng.random() < 0.07:
        # a recurrence SET as a member of the set: one inclusion (or
        # exclusion) source whose own exclusions stay its own
        inner = RL.gen_set(rng, cache=rng.random() < 0.3, max_rules=2,
                           max_dates=3, member_cache_p=0.2)
        inner["base"] = list(base)
        for k in ("rrules", "exrules"):
            inner[k] = [RL.gen_family_rule(rng, base) for _ in inner[k]]
        for k in ("rdates", "exdates"):
            inner[k] = [RL.gen_family_date(rng, base) for _ in inner[k]]
        return inner
    if role in ("rrule", "exrule"):
        spec = RL.gen_family_rule(rng, base, cache=rng.random() < 0.35)
        if not spec["cache"] and rng.random() < 0.4:
            spec["shared_uncached"] = True
            if rng.random() < 0.5:
                # make it consult the weekday/month masks and span years
                spec["freq"] = rng.choice([0, 1, 2])
                spec["interval"] = 1
        return spec
    return RL.gen_family_date(rng, base)


def generate(cls, rng):
    init = RL.gen_set(rng, cache=True, max_rules=DP.pick(2, 4),
                      max_dates=DP.pick(3, 6), member_cache_p=0.35)
    if rng.random() < 0.25:
        for r in ("rrules", "rdates", "exrules", "exdates"):
            init[r] = []
    # every datetime of the run aware, in one of three UTC offsets chosen by
    # its own fields (6 h and 12 h apart: the family's occurrences sit on a
    # 6-hour grid, so instants spelled in different offsets do coincide)
    init["aware"] = rng.random() < 0.1
    if not init["aware"] and init["base"][0] != 1 and rng.random() < 0.08:
        # a process time zone with daylight saving, and listed dates in and
        # around the hour that does not exist / exists twice there: naive
        # datetimes are ordered by their fields, whatever the process zone
        # makes of them (timestamp() / mktime() are not monotonic here)
        init["proc_tz"], month, day = rng.choice([
            ("EST5EDT,M3.2.0,M11.1.0", 3, 14),
            ("EST5EDT,M3.2.0,M11.1.0", 11, 7),
            ("NZST-12NZDT,M9.5.0,M4.1.0/3", 9, 26),
            ("NZST-12NZDT,M9.5.0,M4.1.0/3", 4, 4)])
        # ... or every datetime of the run aware in that zone (one shared
        # zone object), the process zone left alone
        init["zone_aware"] = rng.random() < 0.4
        init["base"] = [2021, month, 1, 0, 0, 0]
        for r in ("rrules", "exrules"):
            for m in init[r]:
                m["dtstart"][0:2] = [2021, month]
        init["rdates"] = [[2021, month, day, h, mi, 0]
                          for h, mi in rng.sample(
                              [(0, 59), (1, 0), (1, 30), (1, 59), (2, 0),
                               (2, 30), (2, 59), (3, 0), (3, 30)],
                              rng.randrange(3, 8))]
        init["exdates"] = [[2021, month, day, h, mi, 0]
                           for h, mi in rng.sample(
                               [(1, 30), (2, 0), (2, 30), (3, 0)],
                               rng.randrange(0, 3))]
    base = init["base"]
    ops = []
    live = []
    nh = 0
    for _ in range(rng.randrange(4, DP.pick(40, 110))):
        r = rng.random()
        if r < 0.03:
            # a rule OBJECT that is already a member is added once more, to
            # the same role or the other one (e.g. a rule that is included
            # and excluded at the same time)
            ops.append(["add_again", rng.randrange(8),
                        rng.choice(["rrule", "exrule"])])
        elif r < 0.20:
            role = rng.choice(["rrule", "rdate", "rdate", "exrule", "exdate",
                               "exdate"])
            ops.append(["add", role, gen_member(rng, role, base)])
        elif r < 0.35 and len(live) < DP.pick(3, 5):
            h = "i%d" % nh
            nh += 1
            ops.append(["iter", h])
            live.append(h)
        elif r < 0.62 and live:
            ops.append(["next", rng.choice(live),
                        rng.choice([1, 1, 2, 3, 5, 9, 10, 11])])
        elif r < 0.70 and live:
            ops.append(["drain", rng.choice(live)])
        elif r < 0.74 and live:
            h = rng.choice(live)
            live.remove(h)
            ops.append(["close", h])
        else:
            q = RL.gen_query(rng, finite=True, maxidx=30)
            if rng.random() < 0.35:
                # aim at member instants, excluded ones included
                q = [["mem"] + a[1:] if isinstance(a, list) and a and
                     a[0] == "at" else a for a in q]
            ops.append(q)
    return dict(init=init, ops=ops)


class Mirror(object):
    """One of the two sets with its live and stale iterators."""

    def __init__(self, ctx, rset, name):
        self.ctx = ctx
        self.rset = rset
        self.name = name
        self.client = None
        self.stale = {}

    def renew(self, L, base):
        if self.client is not None:
            for h, rec in self.client.its.items():
                self.stale[h] = rec
                if rec[2] and not rec[3]:
                    self.ctx.probe("add_while_iterator_live")
        self.client = RL.Client(self.ctx, self.rset, L, base, self.name,
                                False, prop="C10")

    def do(self, op):
        h = op[1] if op[0] in ("next", "drain", "close") else None
        if h is not None and h in self.stale:
            return self.advance_stale(op)
        return self.client.do(op)

    def advance_stale(self, op):
        """A stale iterator keeps running (that is what can disturb the set)
        but nothing about its own output is judged."""
        rec = self.stale[op[1]]
        ctx = self.ctx
        ctx.probe("stale_iterator_advanced")
        try:
            if op[0] == "close":
                c = getattr(rec[0], "close", None)
                if c is not None:
                    c()
                del self.stale[op[1]]
            else:
                n = op[2] if op[0] == "next" else 10 ** 6
                for _ in range(n):
                    try:
                        next(rec[0])
                    except StopIteration:
                        ctx.probe("stale_iterator_exhausted_after_mutation")
                        del self.stale[op[1]]
                        break
        except Deadlock:
            ctx.probe("stale_iterator_deadlocked")
            self.stale.pop(op[1], None)
        except BudgetExceeded:
            raise
        except Exception as e:
            ctx.probe("stale_iterator_raised")
            self.stale.pop(op[1], None)
        ctx.event(self.name, "stale", op[0], op[1])
        return False


def execute(cls, scenario, ctx):
    from dateutil import rrule as rr
    init = scenario["init"]
    if init.get("aware"):
        RL.AWARE_OFFSETS = [0, -360, 720]
        ctx.probe("aware_members_mixed_offsets")
    if init.get("proc_tz") and init.get("zone_aware"):
        from dateutil import tz as _tz
        RL.AWARE_ZONE = _tz.tzstr(init["proc_tz"])
        ctx.probe("aware_in_one_dst_zone_with_repeated_hour_dates")
    elif init.get("proc_tz"):
        import os
        import time
        os.environ["TZ"] = init["proc_tz"]
        time.tzset()
        ctx.probe("process_tz_with_dst_and_gap_hour_dates")
    base = RL.dt(init["base"])
    A = rr.rruleset(cache=True)
    B = rr.rruleset(cache=False)
    mirrors = [Mirror(ctx, A, "cached"), Mirror(ctx, B, "uncached")]
    model = dict(rrule=[], rdate=[], exrule=[], exdate=[])
    cost = [0]
    built = []          # (model list, [object for A, object for B])
    raw = dict(rrule=[], rdate=[], exrule=[], exdate=[])   # payloads as given

    def add(role, payload):
        raw[role].append(payload)
        if role in ("rrule", "exrule"):
            try:
                ml = RL.model_list(payload)
            except RL.ModelTooCostly:
                return False
            cost[0] += RL.LAST_MODEL_COST
            model[role].append(ml)
            if payload.get("kind") == "set":
                ctx.probe("nested_set_member")
                objs = [RL.build_set(payload), RL.build_set(payload)]
            elif payload.get("cache"):
                shared = RL.build_rule(payload, cache=True)
                objs = [shared, shared]
                ctx.probe("shared_cached_member")
            elif payload.get("shared_uncached"):
                # one uncached rule object used by both sets (legal: a rule
                # is immutable); their iterators interleave on it
                one = RL.build_rule(payload, cache=False)
                objs = [one, one]
                ctx.probe("shared_uncached_member")
            else:
                objs = [RL.build_rule(payload, cache=False),
                        RL.build_rule(payload, cache=False)]
        else:
            d = RL.dt(payload)
            model[role].append(d)
            objs = [d, d]
        if role in ("rrule", "exrule"):
            built.append((ml, objs))
        for m, o in zip(mirrors, objs):
            getattr(m.rset, role)(o)
        return True

    def add_again(k, role):
        if not built:
            return False
        raw[role].append("again")
        ml, objs = built[k % len(built)]
        model[role].append(ml)
        ctx.probe("member_object_added_twice")
        for m, o in zip(mirrors, objs):
            getattr(m.rset, role)(o)
        return True

    def current_L():
        inc = set()
        for ml in model["rrule"]:
            for e in ml:
                if e in inc:
                    ctx.probe("coinciding_inclusion")
                inc.add(e)
        for d in model["rdate"]:
            if d in inc:
                ctx.probe("coinciding_inclusion")
            inc.add(d)
        exc = set()
        for ml in model["exrule"]:
            exc.update(ml)
        exc.update(model["exdate"])
        if inc & exc:
            ctx.probe("excluded_occurrence")
        RL.MEMBER_INSTANTS = sorted(inc | exc)
        return sorted(inc - exc)

    for r in init["rrules"]:
        add("rrule", r)
    for d in init["rdates"]:
        add("rdate", d)
    for r in init["exrules"]:
        add("exrule", r)
    for d in init["exdates"]:
        add("exdate", d)
    with K.mute():
        L = current_L()
    for m in mirrors:
        m.renew(L, base)
    ctx.event("init", len(L))
    mutated_live = False
    judged_after = False
    for op in scenario["ops"]:
        budget = RL.budget_for(2 * cost[0] + 2000 * len(L))
        if op[0] in ("add", "add_again"):
            live = any(rec[2] and not rec[3] for m in mirrors
                       for rec in m.client.its.values())
            ok = add(op[1], op[2]) if op[0] == "add" else \
                add_again(op[1], op[2])
            if not ok:
                continue
            with K.mute():
                L = current_L()
            for m in mirrors:
                m.renew(L, base)
            ctx.event(op[0], op[1] if op[0] == "add" else op[2], len(L))
            if live:
                mutated_live = True
            ctx.state("add", op[1] if op[0] == "add" else op[2], live,
                      bool(mirrors[0].stale))
            continue
        for m in mirrors:
            K.set_budget(budget)
            try:
                judged = m.do(op)
                if judged and mutated_live:
                    judged_after = True
            except Deadlock as e:
                ctx.violation("liveness.deadlock",
                              dict(set=m.name, op=op, msg=str(e)))
            except BudgetExceeded as e:
                ctx.violation("liveness.budget",
                              dict(set=m.name, op=op, msg=str(e)))
            finally:
                K.set_budget(None)
        ctx.state(op[0], len(mirrors[0].stale) > 0,
                  bool(getattr(A, "_cache_complete", False)),
                  min(len(getattr(A, "_cache", ())) // 10, 3))
    # quiescence: a fresh pass over both sets reflects every member
    for m in mirrors:
        K.set_budget(RL.budget_for(2 * cost[0] + 2000 * len(L)))
        try:
            m.renew(L, base)
            m.do(["list"])
            m.do(["count"])
            m.do(["iter", "q"])
            m.do(["drain", "q"])
        except Deadlock as e:
            ctx.violation("liveness.deadlock",
                          dict(set=m.name, op="quiesce", msg=str(e)))
        except BudgetExceeded as e:
            ctx.violation("liveness.budget",
                          dict(set=m.name, op="quiesce", msg=str(e)))
        finally:
            K.set_budget(None)
    if mutated_live:
        ctx.nontrivial = True
    text_route(ctx, raw, init)


FREQ_NAMES = ["YEARLY", "MONTHLY", "WEEKLY", "DAILY", "HOURLY", "MINUTELY",
              "SECONDLY"]


def text_route(ctx, raw, init):
    """The same membership written as iCalendar text and read by rrulestr:
    another way into rruleset, with the listed dates in the (unsorted) order
    in which the run added them. Only for memberships the text can state:
    naive datetimes, whole seconds, at most one plain inclusion rule, no
    exclusion rules."""
    from dateutil import rrule as rr
    if init.get("aware") or init.get("zone_aware") or raw["exrule"] or \
            len(raw["rrule"]) > 1:
        return
    for p in raw["rrule"]:
        if not isinstance(p, dict) or p.get("kind") == "set" or \
                set(p) - {"freq", "dtstart", "interval", "count", "cache",
                          "shared_uncached"}:
            return
    dates = raw["rdate"] + raw["exdate"]
    if any(len(d) > 6 for d in dates) or not (raw["rrule"] or raw["rdate"]):
        return

    def fmt(d):
        return "%04d%02d%02dT%02d%02d%02d" % tuple(d[:6])
    lines = []
    rules_L = []
    if raw["rrule"]:
        p = raw["rrule"][0]
        lines.append("DTSTART:" + fmt(p["dtstart"]))
        lines.append("RRULE:FREQ=%s;INTERVAL=%d;COUNT=%d" % (
            FREQ_NAMES[p["freq"]], p.get("interval", 1), p["count"]))
        try:
            rules_L.append(RL.model_list(dict(p, cache=False)))
        except RL.ModelTooCostly:
            return
    rd, xd = raw["rdate"], raw["exdate"]
    if rd:
        k = len(rd) // 2
        if k and len(rd) % 2:
            lines.append("RDATE:" + ",".join(fmt(d) for d in rd[:k]))
            lines.append("RDATE:" + ",".join(fmt(d) for d in rd[k:]))
        else:
            lines.append("RDATE:" + ",".join(fmt(d) for d in rd))
    if xd:
        lines.append("EXDATE:" + ",".join(fmt(d) for d in xd))
    text = "\n".join(lines)
    want = RL.set_model(rules_L, [RL.dt(d) for d in rd], [],
                        [RL.dt(d) for d in xd])
    K.set_budget(RL.budget_for(2 * RL.LAST_MODEL_COST + 2000 * len(want)))
    try:
        s = rr.rrulestr(text, forceset=True)
        got = list(s)
        n = s.count()
    except (Deadlock, BudgetExceeded) as e:
        ctx.violation("liveness.budget", dict(op="rrulestr", msg=str(e)))
        return
    finally:
        K.set_budget(None)
    ctx.checks += 1
    ctx.probe("set_built_from_text")
    ctx.event("text_route", len(got))
    if got != want or n != len(want):
        ctx.violation("C10.query_wrong",
                      dict(task="rrulestr", op=["list"], text=text[:300],
                           got=RL.show(got), want=RL.show(want), count=n))


def simplify(cls, scenario):
    t = scenario["init"]
    for role in ("exdates", "exrules", "rdates", "rrules"):
        for i in range(len(t[role])):
            c = copy.deepcopy(scenario)
            del c["init"][role][i]
            yield c
    for i, op in enumerate(scenario["ops"]):
        if op[0] == "add" and op[1] in ("rrule", "exrule"):
            if op[2].get("cache"):
                c = copy.deepcopy(scenario)
                c["ops"][i][2]["cache"] = False
                yield c
            if op[2].get("count", 0) > 1:
                c = copy.deepcopy(scenario)
                c["ops"][i][2]["count"] = 1
                yield c
