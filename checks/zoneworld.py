"""The simulated zone world shared by C06 and C18: synthetic TZif zones, an
in-memory file system behind dateutil.tz.tz's open()/os, two TZPATHS entries,
a simulated bundled archive behind dateutil.zoneinfo.get_data, and process-TZ
events (real environ + real tzset: glibc is real code).
"""
import datetime
import io
import os
import tarfile
import time

from dsim.simfs import SimFS, SimFile
from models import tzif

ZI1 = "/sim/zi1"
ZI2 = "/sim/zi2"
EPOCH = datetime.datetime(1970, 1, 1)


def simple_zone(k, ntrans=6):
    """Well-behaved synthetic zone number k: alternating standard/daylight
    with a one-hour saving, transitions half a year apart, offsets unique to
    k. dateutil and the reference reader agree on these shapes everywhere
    before the last transition."""
    std = -5 * 3600 + k * 900
    dst = std + 3600
    types = [(std, False, "S%02d" % k), (dst, True, "D%02d" % k)]
    t0 = 946684800 + k * 86400       # 2000-01-01 + k days
    trans = [t0 + i * 15768000 for i in range(ntrans)]
    idx = [(i + 1) % 2 for i in range(ntrans)]
    return dict(trans=trans, idx=idx, types=types)


def zone_bytes(z, version=1):
    return tzif.make_tzif(z["trans"], z["idx"], z["types"],
                          z.get("isstd"), z.get("isgmt"), z.get("leaps", ()),
                          version=version)


def make_archive(members, links=(), metadata=None, order="links_last",
                 stale=None):
    """tar.gz with regular members {name: bytes}, link members
    [(name, target, 'sym'|'hard')] and optional METADATA json bytes.
    order: where link entries stand relative to their targets -- a tar made
    from a symlink-based zoneinfo tree in name order has links BEFORE their
    targets, which is legal: 'links_last' | 'links_first' | 'sorted' (by
    name) | 'reversed' (by name, descending)."""
    entries = []
    if stale and order == "links_last":
        # {name: older bytes}: an archive that was appended to (tar -r) lists
        # a member twice; the LAST entry of a name is the member
        for name in sorted(stale):
            entries.append((name + "\0stale", "file", stale[name]))
    for name in sorted(members):
        entries.append((name, "file", members[name]))
    for name, target, kind in links:
        entries.append((name, kind, target))
    if order == "links_first":
        entries.sort(key=lambda e: (e[1] == "file", e[0]))
    elif order == "sorted":
        entries.sort(key=lambda e: e[0])
    elif order == "reversed":
        entries.sort(key=lambda e: e[0], reverse=True)
    bio = io.BytesIO()
    with tarfile.open(fileobj=bio, mode="w:gz") as tf:
        for name, kind, payload in entries:
            ti = tarfile.TarInfo(name.split("\0")[0])
            ti.mtime = 0
            if kind == "file":
                ti.size = len(payload)
                tf.addfile(ti, io.BytesIO(payload))
            else:
                ti.type = tarfile.SYMTYPE if kind == "sym" \
                    else tarfile.LNKTYPE
                ti.linkname = payload
                tf.addfile(ti)
        if metadata is not None:
            ti = tarfile.TarInfo("METADATA")
            ti.size = len(metadata)
            ti.mtime = 0
            tf.addfile(ti, io.BytesIO(metadata))
    return bio.getvalue()


class World(object):
    """Installs the file-system seam for one run (the run owns the process)."""

    def __init__(self, ctx):
        import dateutil.tz.tz as tzmod
        import dateutil.zoneinfo as zi
        self.ctx = ctx
        self.tzmod = tzmod
        self.zi = zi
        self.fs = SimFS(on_fault=ctx.fault)
        tzmod.open = self.fs.open
        tzmod.os = self.fs.os
        tzmod.TZPATHS[:] = [ZI1, ZI2]
        tzmod.TZFILES[:] = ["/sim/etc/localtime", "localtime"]
        self.bundle = None
        self.bundle_fault = None
        zi.get_data = self._get_data
        if hasattr(zi.get_zonefile_instance, "_cached_instance"):
            del zi.get_zonefile_instance._cached_instance
        del zi._CLASS_ZONE_INSTANCE[:]
        self.set_tz(None)

    def _get_data(self, package, resource):
        if self.bundle is None or self.bundle_fault == "enoent":
            if self.bundle_fault:
                self.ctx.fault("bundle_enoent")
            raise FileNotFoundError(2, "No such file or directory")
        return self.bundle

    def set_bundle(self, members, links=()):
        self.bundle = make_archive(members, links)

    def set_tz(self, value):
        if value is None:
            os.environ.pop("TZ", None)
        else:
            os.environ["TZ"] = value
        time.tzset()


def utc_dt(ts):
    return EPOCH + datetime.timedelta(seconds=ts)


def observe(zone, ts):
    """(utcoffset seconds, tzname, dst seconds) at UTC timestamp ts through
    the public route utc.astimezone(zone)."""
    from dateutil import tz
    d = utc_dt(ts).replace(tzinfo=tz.UTC).astimezone(zone)
    off = d.utcoffset()
    dst = d.dst()
    def secs(x):
        if x is None:
            return None
        s = x.total_seconds()
        return int(s) if s == int(s) else s     # sub-second offsets exist
    return (secs(off), d.tzname(), secs(dst))
