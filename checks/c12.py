"""C12 — recurrence queries agree with the listed sequence, whatever the
cache state and whatever ran before (history dependence on the shared cache).

One class: three twins of one finite rule/set (uncached, cached-cold,
cached-warmed by a generated prefix) receive a generated history of queries,
partial iterations and replace() calls; every answer must equal list
semantics on L = list(uncached twin of the same spec).
"""
import copy
import datetime

from dsim.kernel import K, Deadlock, BudgetExceeded
from . import rulelib as RL
from dsim import depth as DP

PROPERTY = "C12"
SRC_DIR = None
KNOWN_PREDICATES = {}
LEVEL_TEXT = ('Seeded search over query histories: three twins of one finite rule or set (uncached, cached-cold, cached-warmed by a generated prefix) receive generated sequences of index/slice/contains/before/after/between/xafter/count queries with boundary arguments, partial iterations and replace() calls; every answer must equal list semantics on the uncached listing, whatever the cache state (off/empty/partial/complete) and whatever ran before. Sampling of histories and arguments.'
    ' Session 3 added: calendar.setfirstweekday() events between construction and replace(), rules cut off by MAXYEAR, rules starting at datetime.min, n-th weekdays / set positions / year days / week numbers / Easter offsets, aware datetimes, slice bounds of +-10**18.')
LEVEL_NOTE = ('Trusted: list(uncached twin) as L (the property is stated relative to it); Python list semantics as the query model. Single thread; thread schedules over the same cache are C11.')
TECHNIQUE = ('deterministic simulation of cache-state histories against a list reference model')

REAL = ['dateutil.rrule from /repo/src', 'CPython list/slice semantics as the query model']
STUB = ['the cache mutex (SimLock)', 'cache-state history (generated warm-ups and query order)']

CLASSES = {
    "hist": dict(quick=20000, thorough=500000, timeout=30),
}

RULE = ("one evaluation = one generated history of queries / partial "
        "iterations / replace() over three twins (uncached, cached-cold, "
        "cached-warmed) of one finite rule or set; non-trivial = at least one "
        "query answered by a cached twin whose cache was partially filled "
        "(neither empty nor complete) at that moment; distinct = distinct "
        "SHA-1 of the full event history")


def TARGET_FILES(cls):
    return ["rrule.py"]


def gen_rich_rule(rng):
    spec = RL.gen_rule(rng, cache=False)
    r = rng.random()
    if r < 0.15 and spec["freq"] <= 3:
        spec["bymonth"] = sorted(rng.sample(range(1, 13), rng.randrange(1, 4)))
    elif r < 0.3 and spec["freq"] <= 3 and "until" not in spec:
        spec["byhour"] = sorted(rng.sample([0, 6, 12, 18, 23],
                                           rng.randrange(1, 3)))
    if rng.random() < 0.1:
        spec["wkst"] = rng.randrange(0, 7)
    if rng.random() < 0.05 and spec["freq"] <= 2:
        # an explicitly EMPTY BY-part is legal: it installs no filter and
        # switches off the default the constructor would derive from dtstart
        spec.pop("bymonthday", None)
        spec.pop("byweekday", None)
        spec[rng.choice(["bymonthday", "byweekday", "bymonth"])] = []
    r = rng.random()
    if r < 0.08:
        # a rule that runs into datetime.MAXYEAR before COUNT is reached:
        # len(L) < COUNT, legal and finite
        spec = dict(freq=rng.choice([0, 1, 2, 3, 3]),
                    dtstart=[9999, rng.choice([10, 11, 12, 12]),
                             rng.randrange(1, 29), rng.randrange(0, 24), 0,
                             0],
                    interval=rng.choice([1, 1, 2]),
                    count=rng.choice([3, 10, 11, 40]), cache=False)
        if rng.random() < 0.4:
            spec = RL.gen_terminal_rule(rng, cache=False)
    elif r < 0.12:
        # the first representable instants
        spec["dtstart"] = [1, 1, 1, 0, 0, 0]
        spec.pop("until", None)
        spec.setdefault("count", rng.choice([1, 5, 10, 11]))
    elif r < 0.24:
        # BY-parts beyond the plain ones: n-th weekdays, set positions, year
        # days, week numbers, Easter offsets, minutes
        k = rng.choice(["nth", "setpos", "yearday", "weekno", "easter",
                        "minute"])
        spec = dict(dtstart=spec["dtstart"], interval=rng.choice([1, 1, 2]),
                    count=rng.choice([0, 1, 5, 10, 11, 20, 21]), cache=False)
        if k == "nth":
            spec["freq"] = rng.choice([0, 1])
            spec["bynweekday"] = [[rng.randrange(7),
                                   rng.choice([1, 2, -1, -2, 5])]
                                  for _ in range(rng.choice([1, 2]))]
        elif k == "setpos":
            spec["freq"] = 1
            spec["byweekday"] = [0, 1, 2, 3, 4]
            spec["bysetpos"] = rng.choice([[-1], [1], [1, -1], [2, -2]])
        elif k == "yearday":
            spec["freq"] = 0
            spec["byyearday"] = sorted(rng.sample([1, 59, 60, 100, 200, 365,
                                                   366, -1, -366], 3))
        elif k == "weekno":
            spec["freq"] = 0
            spec["byweekno"] = sorted(rng.sample([1, 20, 52, 53, -1], 2))
            spec["byweekday"] = [rng.randrange(7)]
        elif k == "easter":
            spec["freq"] = 0
            spec["byeaster"] = sorted(rng.sample([0, -2, 1, 39, 49], 2))
        else:
            spec["freq"] = rng.choice([3, 4])
            spec["byminute"] = sorted(rng.sample([0, 15, 30, 59], 2))
    elif r < 0.36:
        # a rule whose expansion depends on the week start: every 2nd/3rd
        # week on several weekdays (wkst explicit, or taken from the
        # process-wide calendar.firstweekday() when the rule is built)
        spec["freq"] = 2
        spec["interval"] = rng.choice([2, 2, 3])
        spec["byweekday"] = sorted(rng.sample(range(7), rng.choice([2, 3])))
        spec.pop("bymonthday", None)
        spec.pop("until", None)
        spec.setdefault("count", rng.choice([5, 10, 11, 20]))
        if rng.random() < 0.6:
            spec.pop("wkst", None)
    return spec


def gen_index(rng):
    r = rng.random()
    if r < 0.3:
        return ["len", rng.choice([-2, -1, 0, 1])]
    if r < 0.6:
        return ["neglen", rng.choice([-2, -1, 0, 1])]
    return rng.choice([0, 1, -1, -2, 5, 9, 10, 11, -10, -11,
                       rng.randrange(-50, 50), rng.randrange(-50, 50),
                       10 ** 18, -10 ** 18, 2 ** 70, -2 ** 70,
                       2 ** 63 - 1, 2 ** 63 - 6])


def gen_bound(rng):
    if rng.random() < 0.25:
        return None
    return gen_index(rng)


def gen_query(rng):
    k = rng.choice(["getitem", "getitem", "slice", "slice", "slice", "count",
                    "list", "contains", "before", "after", "between",
                    "xafter"])
    if k == "getitem":
        return ["getitem", gen_index(rng)]
    if k == "slice":
        return ["slice", gen_bound(rng), gen_bound(rng),
                rng.choice([None, None, 1, 2, 3, 7, -1, -2, -3, 0, 2 ** 70,
                            2 ** 63 - 1, 2 ** 63 - 6])]
    if k == "contains":
        return ["contains", RL.gen_ref(rng)]
    if k in ("before", "after"):
        return [k, RL.gen_ref(rng), rng.random() < 0.5]
    if k == "between":
        return ["between", RL.gen_ref(rng), RL.gen_ref(rng),
                rng.random() < 0.5]
    if k == "xafter":
        return ["xafter", RL.gen_ref(rng),
                rng.choice([None, 0, 1, 2, 5, 12, 100]), rng.random() < 0.5]
    return [k]


REPLACE_CHOICES = [
    ("count", [0, 1, 5, 10, 11, 23]),
    ("interval", [1, 2, 5]),
    ("freq", [1, 2, 3, 4]),
    ("dtstart", [[2001, 2, 28, 9, 0, 0], [2024, 2, 29, 0, 0, 0]]),
    ("byweekday", [[0], [5, 6], None]),
    ("bymonthday", [[1, 15], [-1], None]),
    ("wkst", [0, 6]),
    # two parameters at once, one of them named with the value None ("not
    # given"): the rule switches from COUNT to UNTIL (so many days after its
    # start) or from UNTIL to COUNT
    ("count_to_until", [0, 10, 100, 400]),
    ("until_to_count", [0, 1, 10, 11]),
]


def generate(cls, rng):
    if rng.random() < 0.65:
        target = gen_rich_rule(rng)
    else:
        target = RL.gen_set(rng, cache=False, member_cache_p=0.3)
    ops = []
    n = rng.randrange(3, DP.pick(30, 90))
    is_rule = target.get("kind") != "set"
    # process-wide configuration the rule constructor reads when no week
    # start is given: calendar.firstweekday(); changed by events in the
    # history in a third of the runs
    fwd_events = rng.random() < 0.33
    fwd0 = rng.choice([0, 0, 6, rng.randrange(7)]) if fwd_events else 0
    for _ in range(n):
        r = rng.random()
        if fwd_events and rng.random() < 0.12:
            ops.append(["firstweekday", rng.randrange(7)])
        if r < 0.18:
            # a partial iteration; with keep=True the iterator stays alive
            # (suspended) while later queries run -- on any twin, also the
            # uncached one
            ops.append(["warm", rng.choice([0, 1, 2, 2]),
                        rng.choice([1, 2, 5, 9, 10, 11, 15, 20, 21, 30]),
                        rng.random() < 0.5])
        elif r < 0.24:
            # resume a suspended iterator, or a live xafter() generator
            if rng.random() < 0.5:
                ops.append(["resume", rng.choice([0, 1, 2]),
                            rng.choice([1, 2, 5, 11])])
            else:
                ops.append(["xlive", rng.choice([0, 1, 2]), RL.gen_ref(rng),
                            rng.choice([None, 2, 5, 12]),
                            rng.random() < 0.5])
        elif r < 0.32 and is_rule:
            name, vals = rng.choice(REPLACE_CHOICES)
            ops.append(["replace", rng.choice([0, 1, 2]), name,
                        rng.choice(vals)])
        else:
            q = gen_query(rng)
            if not is_rule and rng.random() < 0.3:
                q = [["mem"] + a[1:] if isinstance(a, list) and a and
                     a[0] == "at" else a for a in q]
            if rng.random() < 0.6:
                # the same query to all three twins in a generated order
                order = [0, 1, 2]
                rng.shuffle(order)
                for t in order:
                    ops.append(["q", t, q])
            else:
                ops.append(["q", rng.choice([0, 1, 2]), q])
    sc = dict(target=target, warm=rng.choice([0, 1, 5, 9, 10, 11, 15, 25]),
              ops=ops, fwd0=fwd0, aware=rng.random() < 0.08)
    if is_rule and not sc["aware"] and 1971 <= target["dtstart"][0] <= 2100 \
            and "until" not in target and rng.random() < 0.06:
        # the rule is built WITHOUT dtstart, at the simulated instant that
        # equals its nominal dtstart; the clock then moves on
        target["implicit_dtstart"] = True
        for _ in range(rng.choice([1, 2, 3])):
            ops.insert(rng.randrange(len(ops) + 1),
                       ["tick", rng.choice([1, 2, 61, 3600, 86400 * 40])])
    return sc


def cache_state(t):
    c = getattr(t, "_cache", None)
    if c is None:
        return "off"
    if getattr(t, "_cache_complete", False):
        return "complete"
    return "empty" if not c else "partial"


def execute(cls, scenario, ctx):
    import calendar
    tspec = scenario["target"]
    fwd0 = scenario.get("fwd0", 0) % 7
    calendar.setfirstweekday(fwd0)
    clock = None
    if tspec.get("implicit_dtstart"):
        import os
        import time
        from dsim import simclock
        os.environ["TZ"] = "UTC"
        time.tzset()
        clock = simclock.install()
        clock.set(calendar.timegm(tuple(tspec["dtstart"][:6]) + (0, 0, 0)))
        ctx.probe("rule_built_without_dtstart")
    if scenario.get("aware"):
        # timezone-aware start, listed dates and query arguments, in three
        # different UTC offsets
        RL.AWARE_OFFSETS = [0, -360, 720]
        ctx.probe("aware_datetimes")
    try:
        L = RL.model_list(tspec)
    except ValueError as e:
        ctx.event("invalid-spec", str(e)[:80])
        return
    except RL.ModelTooCostly:
        ctx.event("model-too-costly")
        ctx.count("skipped_costly")
        return
    base = RL.dt(tspec.get("dtstart") or tspec.get("base"))
    cost_of_L = RL.LAST_MODEL_COST
    if tspec.get("kind") == "set":
        # every instant any member produces or lists, excluded ones too
        pool = set()
        try:
            for r in tspec["rrules"] + tspec["exrules"]:
                pool.update(RL.model_list(r))
        except RL.ModelTooCostly:
            pass
        for d in tspec["rdates"] + tspec["exdates"]:
            pool.add(RL.dt(d))
        RL.MEMBER_INSTANTS = sorted(pool)
        RL.LAST_MODEL_COST = cost_of_L
    twins = [RL.build_target(tspec, cache=False),
             RL.build_target(tspec, cache=True),
             RL.build_target(tspec, cache=True)]
    clients = [RL.Client(ctx, t, L, base, "twin%d" % i, False, prop="C12")
               for i, t in enumerate(twins)]
    ctx.event("target", tspec.get("kind", "rule"), len(L))
    budget = [RL.budget_for(RL.LAST_MODEL_COST)]
    live = []

    def guarded(fn, what):
        K.set_budget(budget[0])
        try:
            return fn()
        except Deadlock as e:
            ctx.violation("liveness.deadlock", dict(op=what, msg=str(e)))
        except BudgetExceeded as e:
            ctx.violation("liveness.budget", dict(op=what, msg=str(e)))
        finally:
            K.set_budget(None)

    # warm twin 2 with a prefix (iterator abandoned without close)
    w = scenario.get("warm", 0)
    if w:
        def warm2():
            it = iter(twins[2])
            for _ in range(w):
                try:
                    next(it)
                except StopIteration:
                    break
            live.append(it)
        guarded(warm2, "warm")
    nwarm = 0
    for op in scenario["ops"]:
        if op[0] == "q":
            t = op[1]
            st = cache_state(twins[t])
            if st == "partial":
                ctx.nontrivial = True
                ctx.probe("query_on_partial_cache")
            elif st == "complete":
                ctx.probe("query_on_complete_cache")
            elif st == "empty":
                ctx.probe("query_on_empty_cache")
            ctx.state(op[2][0], st)
            guarded(lambda: clients[t].do(op[2]), op)
        elif op[0] == "warm":
            t, k, keep = op[1], op[2], op[3]
            nwarm += 1
            h = "w%d" % nwarm

            def warm():
                clients[t].do(["iter", h])
                clients[t].do(["next", h, k])
                if not keep:
                    clients[t].do(["close", h])
            guarded(warm, op)
        elif op[0] == "resume":
            t, k = op[1], op[2]
            hs = sorted(h for h in clients[t].its)
            if hs:
                h = hs[len(hs) // 2]
                ctx.probe("suspended_iterator_resumed")
                guarded(lambda: clients[t].do(["next", h, k]), op)
        elif op[0] == "xlive":
            t = op[1]
            nwarm += 1
            h = "x%d" % nwarm

            def xl():
                clients[t].do(["xiter", h, op[2], op[3], op[4]])
                clients[t].do(["next", h, 1])
            guarded(xl, op)
        elif op[0] == "tick":
            if clock is not None:
                clock.tick(op[1])
                ctx.event("tick", op[1])
        elif op[0] == "firstweekday":
            # process reconfiguration: rules already built keep the week
            # start they were built with
            calendar.setfirstweekday(op[1] % 7)
            ctx.event("firstweekday", op[1] % 7)
            if op[1] % 7 != fwd0:
                ctx.probe("firstweekday_changed_after_construction")
        elif op[0] == "replace":
            t, name, val = op[1], op[2], op[3]
            if tspec.get("kind") == "set":
                continue
            spec2 = copy.deepcopy(tspec)
            # "differing only in the named parameters": the week start the
            # original was built with stays, whatever the calendar module
            # says by now
            spec2.setdefault("wkst", fwd0)
            # (and the start it was built with, whatever the clock says now)
            spec2.pop("implicit_dtstart", None)
            kw2 = None
            if name == "count_to_until":
                try:
                    u = RL.undt(RL.dt(spec2["dtstart"]).replace(tzinfo=None)
                                + datetime.timedelta(days=val, hours=5))
                except OverflowError:
                    continue
                spec2.pop("count", None)
                spec2["until"] = u
                kw2 = dict(count=None, until=RL.dt(u))
            elif name == "until_to_count":
                spec2.pop("until", None)
                spec2["count"] = val
                kw2 = dict(until=None, count=val)
            else:
                spec2[name] = val
            if name == "byweekday":
                # replaces the whole BYDAY part, n-th weekdays included
                spec2.pop("bynweekday", None)
            if name == "count" and "until" in spec2:
                pass        # both given: same keyword path in the model
            try:
                L2 = RL.model_list(spec2)
            except (ValueError, RL.ModelTooCostly):
                continue
            rbudget = RL.budget_for(RL.LAST_MODEL_COST) + budget[0]

            def rep():
                kw = {name: val}
                if name == "dtstart":
                    kw = {name: RL.dt(val)}
                if kw2 is not None:
                    kw = kw2
                new = twins[t].replace(**kw)
                if (len(L2) + len(name)) % 3 == 0:
                    # count() asked of the derived rule before anything has
                    # walked it
                    n0 = new.count()
                    if n0 != len(L2):
                        ctx.violation("C12.replace_wrong",
                                      dict(twin=t, name=name, value=val,
                                           count_before_listing=n0,
                                           want=len(L2)))
                got = list(new)
                with K.mute():
                    ctx.checks += 1
                    ctx.event("replace", t, name, val, len(got))
                    if got != L2:
                        ctx.violation("C12.replace_wrong",
                                      dict(twin=t, name=name, value=val,
                                           got=RL.show(got),
                                           want=RL.show(L2)))
                    # the original must be untouched
                    again = list(twins[t])
                    if again != L:
                        ctx.violation("C12.replace_mutated_original",
                                      dict(twin=t, name=name, value=val))
            saved = budget[0]
            budget[0] = rbudget
            guarded(rep, op)
            budget[0] = saved


def simplify(cls, scenario):
    t = scenario["target"]
    if scenario.get("warm"):
        c = copy.deepcopy(scenario)
        c["warm"] = 0
        yield c
    if t.get("kind") == "set":
        for role in ("exdates", "exrules", "rdates", "rrules"):
            for i in range(len(t[role])):
                c = copy.deepcopy(scenario)
                del c["target"][role][i]
                yield c
    else:
        for key in ("byweekday", "bymonthday", "bymonth", "byhour", "wkst"):
            if key in t:
                c = copy.deepcopy(scenario)
                del c["target"][key]
                yield c
        if t.get("interval", 1) != 1:
            c = copy.deepcopy(scenario)
            c["target"]["interval"] = 1
            yield c
        if t.get("count"):
            for n in (1, 2, 10, 11, t["count"] - 1):
                if 0 <= n < t["count"]:
                    c = copy.deepcopy(scenario)
                    c["target"]["count"] = n
                    yield c
