"""C17 — iCalendar VTIMEZONE zones agree with the same rules given as a TZ
string, whatever the lookup-cache history and thread schedule.

Classes
  hist     one thread: a VTIMEZONE text is generated from a POSIX rule pair
           (RRULE form or finite RDATE-list form, either component order,
           folded lines, several zones per file, stream or path) and queried
           through > 10 distinct wall times so the 10-entry lookup cache hits,
           misses and evicts; answers are compared with an independent POSIX
           model, with tzrange/tzstr of the same rules, and with a freshly
           parsed never-queried copy
  threads  1-3 real threads query one shared zone (pre-emption at every line
           of tz/tz.py, tz/_common.py and rrule.py): same oracles + liveness
  bad      malformed definitions must raise ValueError
"""
import copy as _copy
import datetime
import io

from dsim.kernel import K, Scheduler, Deadlock, BudgetExceeded
from models import posixtz as PX
from . import zoneworld as ZW

PROPERTY = "C17"
SRC_DIR = None
LEVEL_TEXT = (
    "Seeded search over lookup-cache histories and thread schedules: "
    "VTIMEZONE definitions generated from POSIX rule pairs (RRULE and finite "
    "RDATE-list forms, both component orders, folded lines, several zones per "
    "file, stream and path sources) are queried from one thread and from 1-3 "
    "real threads sharing the zone, cycling through more than ten wall times "
    "so that the per-zone lookup cache hits, misses and evicts while the "
    "components' cached recurrence sets are iterated concurrently. Every "
    "answer must equal that of a freshly parsed, never queried copy "
    "(history/schedule independence), the POSIX model and tzrange/tzstr of "
    "the same rules from the first onset on, the first STANDARD component "
    "before it; malformed definitions must raise ValueError; no deadlock, "
    "every query within its step budget. Rule equivalence is input sampling."
    ' Session 3 added: UNTIL-bounded components, 9/10/11/20 onsets, queries beyond the last onset, one-aspect neighbour zones in one file, a dormant second STANDARD component, decorated zones (TZURL, LAST-MODIFIED, COMMENT, VALUE=DATE-TIME, lower-case names, VEVENTs around), property order inside components, one calendar object per zone, TZIDs with blanks under narrow folds, equivalent RRULE spellings, malformed blocks next to well-formed ones.')
LEVEL_NOTE = (
    "Trusted: the POSIX model (cross-checked with glibc under C08); SimLock; "
    "line-granularity pre-emption in tz/tz.py, tz/_common.py and rrule.py. "
    "The tzrange of the same rules is compared for every rule (since the "
    "D6 repair also for rule times outside [0, 24 h) in standard time); "
    "rule times of 24:00 are rendered in RDATE form only.")
TECHNIQUE = ("deterministic simulation of lookup-cache histories and thread "
             "schedules over shared iCalendar zones; POSIX model, tzrange and "
             "fresh-copy oracles")
RULE = ("one evaluation = one generated VTIMEZONE text + query history (or "
        "per-thread query programs + schedule); non-trivial = the lookup "
        "cache both hit and evicted at least once in the run (hist), or at "
        "least one context switch inside a query (threads), or a malformed "
        "text was judged (bad); distinct = distinct SHA-1 of the full event "
        "history")
EXPECTED_PROBES = ["lookup_cache_hit", "lookup_cache_miss",
                   "lookup_cache_evict", "form.rrule", "form.rdate",
                   "form.rrule_count",
                   "order.daylight_first", "folded_lines", "multi_zone_file",
                   "single_zone_unnamed", "source.path", "before_first_onset",
                   "gap_wall_time", "fold_wall_time", "fresh_copy_agrees",
                   "malformed_rejected", "acquire_blocked"]

REAL = ['dateutil.tz tzical/_tzicalvtz, dateutil.rrule (rrulestr, cached sets), tz._common from /repo/src', 'real OS threads in the threads class']
STUB = ["the zone's lookup-cache mutex and the recurrence-cache mutexes (SimLock)", 'thread scheduling (LINE events of tz/tz.py, tz/_common.py, rrule.py)', 'file system for tzical(path) (SimFS)', 'VTIMEZONE texts generated from POSIX rule pairs']

CLASSES = {
    "hist":    dict(quick=1200, thorough=40000, timeout=120),
    "threads": dict(quick=1500, thorough=25000, timeout=120),
    "bad":     dict(quick=600, thorough=10000, timeout=60),
}

Y0 = 1990
TS_MAX = int((datetime.datetime(9999, 12, 28) -
              datetime.datetime(1970, 1, 1)).total_seconds())


def TARGET_FILES(cls):
    if cls == "threads":
        return ["tz/tz.py", "tz/_common.py", "rrule.py"]
    return ["tz/tz.py", "tz/_common.py", "rrule.py"]


def _pred_rule_time_outside_day(scenario, invariant, detail):
    return bool(detail.get("rule_time_outside_day"))


KNOWN_PREDICATES = {}

WD = ["SU", "MO", "TU", "WE", "TH", "FR", "SA"]


# ---------------------------------------------------------------------------
# VTIMEZONE rendering
# ---------------------------------------------------------------------------

def fmt_offset(sec):
    sign = "-" if sec < 0 else "+"
    a = abs(sec)
    return "%s%02d%02d" % (sign, a // 3600, (a % 3600) // 60)


def fmt_dt(d):
    return d.strftime("%Y%m%dT%H%M%S")


def onset_local(rule, year):
    """Local wall time (in the offset in force before the change) of the
    rule's onset in `year`."""
    d = PX.rule_date(rule, year)
    return datetime.datetime(d.year, d.month, d.day) + \
        datetime.timedelta(seconds=rule[-1])


RRULE_SPELLING = [0]      # set per run from the scenario
RDATE_ORDER = [0]


def rrule_text(rule):
    """The rule as RRULE parameters, in one of several equivalent spellings
    (explicit or implicit plus sign, parameter order, letter case)."""
    t = _rrule_text(rule)
    v = RRULE_SPELLING[0]
    if v == 4 and rule[0] == "J":
        # Jn never counts 29 February: before it the n-th day of the year,
        # after it the (366 - n)-th day from the END of the year
        n = rule[1]
        return "FREQ=YEARLY;BYYEARDAY=%d" % (n if n < 60 else -(366 - n))
    if v == 5 and rule[0] == "M":
        # once a year spelled as "every twelfth month" from DTSTART's month
        _, m, w, d, _t = rule
        return "FREQ=MONTHLY;INTERVAL=12;BYDAY=%+d%s" % (
            -1 if w == 5 else w, WD[d])
    if v == 1:
        t = t.replace("BYDAY=+", "BYDAY=")
    elif v == 2:
        t = ";".join(reversed(t.split(";")))
    elif v == 3:
        t = t.lower()
    return t


def _rrule_text(rule):
    k = rule[0]
    if k == "M":
        _, m, w, d, _t = rule
        n = -1 if w == 5 else w
        return "FREQ=YEARLY;BYMONTH=%d;BYDAY=%+d%s" % (m, n, WD[d])
    if k == "J":
        d = PX.rule_date(rule, 2001)
        return "FREQ=YEARLY;BYMONTH=%d;BYMONTHDAY=%d" % (d.month, d.day)
    return "FREQ=YEARLY;BYYEARDAY=%d" % (rule[1] + 1)


def fold_line(line, width):
    out = []
    while len(line) > width:
        out.append(line[:width])
        line = " " + line[width:]
    out.append(line)
    return out


DORMANT_SHIFT = 7200       # offset of the dormant component: std + 2 h
DORMANT_NAME = "DORM"


def dormant_component(spec):
    """A second STANDARD component whose first onset lies three centuries
    ahead: it never applies to a probed instant, but it is a STANDARD
    component, so 'the first standard component' (before the first onset)
    depends on where it stands in the file."""
    off = spec["stdoff"] + DORMANT_SHIFT
    return ["BEGIN:STANDARD", "DTSTART:%04d0101T000000" % (Y0 + 300),
            "TZOFFSETFROM:" + fmt_offset(spec["stdoff"]),
            "TZOFFSETTO:" + fmt_offset(off), "TZNAME:" + DORMANT_NAME,
            "RRULE:FREQ=YEARLY;BYMONTH=1;BYMONTHDAY=1", "END:STANDARD"]


def vtimezone(spec, tzid, form, daylight_first, nyears, fold_width=None,
              drop=None, extra=None, dormant=None, decor=False,
              prop_order=0):
    """Lines of one VTIMEZONE. form: 'rrule' | 'rdate'.
    drop: name of a mandatory line to leave out (malformed variants)."""
    def comp(kind):
        if kind == "DAYLIGHT":
            rule, frm, to, name = spec["start"], spec["stdoff"], \
                spec["dstoff"], spec["dst"]
        else:
            rule, frm, to, name = spec["end"], spec["dstoff"], \
                spec["stdoff"], spec["std"]
        lines = ["BEGIN:" + kind]
        if decor:
            lines.append("COMMENT:observance generated by the harness")
        if drop != "DTSTART":
            lines.append(("DTSTART;VALUE=DATE-TIME:" if decor else
                          "DTSTART;TZID=Nowhere:" if extra == "dtstart_param"
                          else "DTSTART:") + fmt_dt(onset_local(rule, Y0)))
        if drop != "TZOFFSETFROM":
            lines.append(("tzoffsetfrom:" if decor else
                          "TZOFFSETFROM;X-P=1:" if extra == "offset_param"
                          else "TZOFFSETFROM:") + fmt_offset(frm))
        if drop != "TZOFFSETTO":
            lines.append("TZOFFSETTO:" + fmt_offset(to))
        lines.append("TZNAME:" + name)
        if form == "rrule":
            lines.append("RRULE:" + rrule_text(rule))
        elif form == "rrule_count":
            # a finite recurrence: its cached set completes
            lines.append("RRULE:%s;COUNT=%d" % (rrule_text(rule), nyears))
        elif form == "rrule_until":
            # finite through UNTIL: the day after the last of nyears onsets
            last = onset_local(rule, Y0 + nyears - 1) + \
                datetime.timedelta(days=1)
            lines.append("RRULE:%s;UNTIL=%s" % (
                rrule_text(rule), last.strftime("%Y%m%dT235959")))
        else:
            dates = [fmt_dt(onset_local(rule, y))
                     for y in range(Y0 + 1, Y0 + nyears)]
            # the values of an RDATE list come in no particular order, and
            # may be spread over several RDATE lines
            if RDATE_ORDER[0] == 1:
                dates.reverse()
            elif RDATE_ORDER[0] >= 2:
                dates = dates[1::2] + dates[0::2]
            if dates and RDATE_ORDER[0] == 3 and len(dates) > 2:
                lines.append("RDATE:" + ",".join(dates[:2]))
                lines.append("RDATE:" + ",".join(dates[2:]))
            elif dates:
                lines.append("RDATE:" + ",".join(dates))
        if extra == "unknown_property" and kind == "STANDARD":
            lines.append("X-WHATEVER:1")
        if prop_order:
            # the properties of a component come in no particular order
            # (RFC 5545): e.g. the RRULE before the DTSTART it starts from
            body = lines[1:]
            k = prop_order % len(body) if body else 0
            body = body[k:] + body[:k]
            if prop_order % 2:
                body.reverse()
            lines = lines[:1] + body
        lines.append("END:" + ("DAYLIGHT" if kind == "STANDARD" else
                               "STANDARD")
                     if extra == "wrong_component_end" and kind == "STANDARD"
                     else "END:" + kind)
        return lines
    lines = ["BEGIN:VTIMEZONE"]
    if drop != "TZID":
        lines.append("TZID:" + tzid)
    if decor:
        # properties RFC 5545 allows inside VTIMEZONE and the reader skips
        lines += ["TZURL:http://tz.invalid/" + tzid,
                  "LAST-MODIFIED:20200101T000000Z",
                  "COMMENT:nothing to see"]
    order = ["DAYLIGHT", "STANDARD"] if daylight_first else \
        ["STANDARD", "DAYLIGHT"]
    if dormant == "before":
        lines += dormant_component(spec)
    for k in order:
        lines += comp(k)
    if dormant == "after":
        lines += dormant_component(spec)
    if extra == "unknown_component":
        lines += ["BEGIN:WHATEVER", "END:WHATEVER"]
    if extra == "unclosed_component":
        lines += ["BEGIN:STANDARD"]
    lines.append("END:VTIMEZONE")
    if fold_width:
        folded = []
        for ln in lines:
            folded += fold_line(ln, fold_width)
        lines = folded
    return lines


# ---------------------------------------------------------------------------
# generation
# ---------------------------------------------------------------------------

def gen_zone_spec(rng, form=None):
    spec = PX.gen_spec(rng)
    if rng.random() < 0.1:
        # the later of the two changes in December (first three weeks: the
        # change itself stays inside its year)
        later = max((spec["start"], spec["end"]),
                    key=lambda r: PX.rule_date(r, 2001))
        if later[0] == "M":
            later[1] = 12
            later[2] = rng.choice([1, 2, 3])
    form = form or rng.choice(["rrule", "rrule", "rdate", "rrule_count",
                               "rrule_until"])
    if form in ("rrule", "rrule_count", "rrule_until"):
        # 24:00 cannot be written as a DTSTART time of day
        for r in (spec["start"], spec["end"]):
            if r[-1] >= 86400:
                r[-1] = rng.choice([0, 3600, 7200, 82800])
    return spec, form


def gen_query(rng, nyears, small=False):
    """Symbolic query: year offset, which transition, delta seconds, mode."""
    yo = rng.randrange(0, 3 if small else nyears - 1)
    r = rng.random()
    if r < 0.08:
        yo = -rng.choice([1, 5])        # before the first onset
    elif r < 0.2:
        # the last years of a finite component and beyond its last onset
        # (not judged for value there: no exception, same answer as a
        # never-queried copy)
        yo = nyears + rng.choice([-2, -1, 0, 1, 7])
    return ["q", yo, rng.choice(["start", "end"]),
            rng.choice([-86400, -3600, -1800, -1, 0, 1, 1800, 3600, 86400,
                        rng.randrange(-5 * 10 ** 6, 5 * 10 ** 6)]),
            rng.choice(["utc", "utc", "wall0", "wall1", "gap0", "gap1"])]


def generate(cls, rng):
    if cls == "bad":
        spec, form = gen_zone_spec(rng)
        how = rng.choice(["drop:TZID", "drop:DTSTART", "drop:TZOFFSETFROM",
                          "drop:TZOFFSETTO", "extra:unknown_component",
                          "extra:unknown_property",
                          "extra:unclosed_component", "no_components",
                          "bad_offset", "extra:dtstart_param",
                          "extra:offset_param",
                          "extra:wrong_component_end",
                          "component_case"])
        # alone, or next to a well-formed neighbour in the same file (the
        # malformed block first or second)
        other, other_form = gen_zone_spec(rng)
        return dict(spec=spec, form=form, how=how,
                    daylight_first=rng.random() < 0.5,
                    pos=rng.choice(["alone", "alone", "first", "second"]),
                    other=other, other_form=other_form)
    from dsim import depth as DP
    spec, form = gen_zone_spec(rng)
    small = cls == "threads"
    nyears = rng.choice([3, 4, 6]) if small else \
        rng.choice(DP.pick([4, 8, 12, 25, 41], [12, 25, 41, 80]))
    if form in ("rdate", "rrule_count", "rrule_until"):
        # finite components: the number of onsets around the recurrence
        # cache's batch size of ten matters
        nyears = rng.choice([3, 4, 6, 10]) if small else \
            rng.choice([4, 8, 9, 10, 11, 12, 20])
    other, other_form = gen_zone_spec(rng)
    if rng.random() < 0.5:
        # a neighbour in the same file that differs in one aspect only
        # (e.g. the same RRULE text with another DTSTART time of day)
        other, other_form = PX.gen_sibling(rng, spec), form
        if form in ("rrule", "rrule_count", "rrule_until"):
            for r in (other["start"], other["end"]):
                if r[-1] >= 86400:
                    r[-1] = 82800
    sc = dict(spec=spec, form=form, nyears=nyears,
              daylight_first=rng.random() < 0.5,
              fold_width=rng.choice([None, None, 30, 75, 9, 7, 5, 10, 11,
                                     rng.randrange(5, 20)]),
              rdate_order=rng.choice([0, 0, 1, 2, 3]),
              multi=rng.random() < 0.4, other=other, other_form=other_form,
              dormant=rng.choice([None, None, "after", "before"]),
              decor=rng.random() < 0.3,
              # first onset year: 1990, or (rarely) 9990, so that the probed
              # years run up to 9999, the last one a datetime can hold
              y0=9990 if rng.random() < 0.04 else 1990,
              rrule_spelling=rng.choice([0, 0, 0, 1, 2, 3, 4, 4, 5, 5]),
              dup_tzid=rng.random() < 0.06,
              prop_order=rng.choice([0, 0, 0, 1, 2, 3, 4, 5]),
              calendars=rng.choice(["one", "one", "one", "each"]),
              fwd=rng.choice([0, 0, 0, 6, rng.randrange(7)]),
              blank_ids=rng.random() < 0.3,
              source=rng.choice(["stringio", "stringio", "path", "crlf",
                                 "shortstream", "stringio_offset"]))
    if sc["y0"] != 1990:
        # plain unbounded rules only, no component three centuries ahead
        sc.update(form="rrule", other_form="rrule", dormant=None,
                  nyears=min(nyears, 8))
        for sp in (sc["spec"], sc["other"]):
            for r in (sp["start"], sp["end"]):
                if r[-1] >= 86400:
                    r[-1] = 82800
    if cls == "hist":
        pool = [gen_query(rng, nyears) for _ in range(rng.choice([3, 12, 14,
                                                                  20]))]
        ops = []
        for _ in range(rng.randrange(10, DP.pick(60, 180))):
            ops.append(rng.choice(pool) if rng.random() < 0.7
                       else gen_query(rng, nyears))
        sc["ops"] = ops
        return sc
    pool = [gen_query(rng, nyears, small=True)
            for _ in range(rng.choice([2, 4, 12]))]
    sc["threads"] = [[rng.choice(pool)
                      for _ in range(rng.randrange(1, DP.pick(7, 14)))]
                     for _ in range(rng.choice(DP.pick([1, 2, 2, 3],
                                                       [2, 3, 4, 4])))]
    kind = rng.choice(["random", "random", "pb", "pct", "pbx", "pbx"])
    if rng.random() < 0.5 and sc["y0"] == 1990:
        # cold start: every thread's first query races on components whose
        # recurrence caches are still empty and complete within one fill
        spec, form = gen_zone_spec(rng, rng.choice(["rdate", "rrule_count", "rrule_until"]))
        sc["spec"], sc["form"] = spec, form
        sc["nyears"] = rng.choice([3, 4, 6])
        sc["multi"] = False
        sc["threads"] = [[gen_query(rng, sc["nyears"], small=True)
                          for _ in range(rng.choice([1, 1, 2]))]
                         for _ in range(rng.choice([2, 3, 3]))]
        kind = "random_fine"
    if kind == "random_fine" and rng.random() < 0.6:
        strat = dict(kind="crit", k=rng.choice([1, 2, 3]),
                     q=rng.choice([0.05, 0.15, 0.4]),
                     p=rng.choice([0.0, 0.02]))
    elif kind == "random_fine":
        strat = dict(kind="random", p=rng.choice([0.05, 0.2, 0.5, 1.0]))
    elif kind == "random":
        strat = dict(kind="random", p=rng.choice([0.005, 0.02, 0.1, 1.0]))
    elif kind == "pbx":
        strat = dict(kind="pbx", k=rng.choice([1, 1, 2, 3]))
    elif kind == "pb":
        strat = dict(kind="pb", k=rng.choice([0, 1, 2, 3]),
                     horizon=rng.choice([500, 3000, 15000]))
    else:
        strat = dict(kind="pct", d=rng.choice([1, 2, 3]),
                     horizon=rng.choice([500, 3000, 15000]))
    sc["sched"] = dict(strategy=strat, seed=rng.getrandbits(32))
    return sc


# ---------------------------------------------------------------------------
# execution
# ---------------------------------------------------------------------------

EPOCH = datetime.datetime(1970, 1, 1)


def zone_ids(sc):
    """TZIDs of the two zones: with a blank inside in some runs (a fold may
    then fall right in front of a blank that belongs to the value)."""
    if sc.get("blank_ids"):
        return "Zone One", "Zone Two"
    return "Zone/One", "Zone/Two"


def build_text(sc):
    RRULE_SPELLING[0] = sc.get("rrule_spelling", 0)
    RDATE_ORDER[0] = sc.get("rdate_order", 0)
    lines = ["BEGIN:VCALENDAR", "VERSION:2.0"]
    id1, id2 = zone_ids(sc)
    zones = [(id1, sc["spec"], sc["form"])]
    if sc.get("multi"):
        zones.insert(0 if sc["daylight_first"] else 1,
                     (id2, sc["other"], sc["other_form"]))
    if sc.get("dup_tzid") and not sc.get("multi"):
        # the same zone defined twice (two merged exports): still ONE zone
        zones = zones * 2
    for tzid, spec, form in zones:
        lines += vtimezone(spec, tzid, form, sc["daylight_first"],
                           sc["nyears"], sc.get("fold_width"),
                           dormant=sc.get("dormant")
                           if tzid == id1 else None,
                           decor=bool(sc.get("decor")),
                           prop_order=sc.get("prop_order", 0))
        if sc.get("calendars") == "each" and (tzid, spec, form) != zones[-1]:
            # several calendar objects in one stream (RFC 5545 3.4): each
            # zone definition sits in a VCALENDAR of its own
            lines += ["END:VCALENDAR", "BEGIN:VCALENDAR", "VERSION:2.0"]
    if sc.get("decor"):
        # other calendar components around the zone definitions are none of
        # the zone reader's business
        ev = ["BEGIN:VEVENT", "UID:1@harness.invalid",
              "DTSTART;TZID=Zone/One:20030101T090000",
              "RRULE:FREQ=DAILY;COUNT=3", "SUMMARY:not a zone", "END:VEVENT"]
        lines = lines[:2] + ev + lines[2:] + ev
    lines.append("END:VCALENDAR")
    sep = "\r\n" if sc.get("source") == "crlf" else "\n"
    return sep.join(lines) + sep


class ZoneUnderTest(object):
    def __init__(self, ctx, sc):
        from dateutil import tz
        global Y0
        Y0 = sc.get("y0", 1990)
        if Y0 != 1990:
            ctx.probe("onsets_up_to_year_9999")
        self.tz = tz
        self.ctx = ctx
        self.sc = sc
        self.text = build_text(sc)
        self.world = None
        if sc.get("source") == "path":
            self.world = ZW.World(ctx)
            self.world.fs.add_file("/sim/cal/zones.ics",
                                   self.text.encode("utf-8"))
            ctx.probe("source.path")
        if sc.get("fold_width"):
            ctx.probe("folded_lines")
        ctx.probe("form." + sc["form"])
        if sc["daylight_first"]:
            ctx.probe("order.daylight_first")
        self.zone = self.parse()
        spec = sc["spec"]
        self.spec = spec
        a, b = PX.transitions_utc(spec, Y0)
        self.first_all = max(a, b)
        self.first_any = min(a, b)
        if sc["form"] in ("rdate", "rrule_count", "rrule_until"):
            la, lb = PX.transitions_utc(spec, Y0 + sc["nyears"])
            self.limit = min(la, lb)
        else:
            self.limit = None
        self.range_ok = PX.rule_times_in_day(spec)
        self.tzrange = None
        # tzrange of the same rules: for every rule since the D6 repair
        from .c08 import to_rd
        sav = spec["dstoff"] - spec["stdoff"]
        self.tzrange = tz.tzrange(
            spec["std"], spec["stdoff"], spec["dst"], spec["dstoff"],
            start=to_rd(spec["start"], spec["start"][-1]),
            end=to_rd(spec["end"], spec["end"][-1] - sav))

    def parse(self):
        tz = self.tz
        sc = self.sc
        if sc.get("source") == "path":
            ical = tz.tzical("/sim/cal/zones.ics")
            if self.world.fs.open_handles:
                self.ctx.violation("C17.handle_leak", dict())
        elif sc.get("source") == "shortstream":
            # a text stream that delivers legal short reads
            from dsim.simfs import ShortTextStream
            ical = tz.tzical(ShortTextStream(self.text, len(self.text)))
        elif sc.get("source") == "stringio_offset":
            # a stream the caller has already read from (an earlier calendar
            # object with another zone): reading starts at the stream's
            # position
            pre = "\n".join(
                ["BEGIN:VCALENDAR", "VERSION:2.0"] +
                vtimezone(sc["other"], "Zone/Before", sc["other_form"],
                          False, 4) + ["END:VCALENDAR"]) + "\n"
            st = io.StringIO(pre + self.text)
            st.read(len(pre))
            ical = tz.tzical(st)
        else:
            ical = tz.tzical(io.StringIO(self.text))
        if sc.get("multi"):
            self.ctx.probe("multi_zone_file")
            try:
                ical.get()
            except ValueError:
                pass
            else:
                self.ctx.violation("C17.unnamed_get_with_two_zones", dict())
            if sorted(ical.keys()) != sorted(zone_ids(sc)):
                self.ctx.violation("C17.keys_wrong",
                                   dict(keys=sorted(ical.keys())))
            z = ical.get(zone_ids(sc)[0])
            if z is None:
                self.ctx.violation("C17.zone_not_addressable",
                                   dict(tzid=zone_ids(sc)[0],
                                        keys=sorted(ical.keys())))
            return z
        self.ctx.probe("single_zone_unnamed")
        z = ical.get()
        if z is not ical.get(zone_ids(sc)[0]):
            self.ctx.violation("C17.unnamed_get_differs", dict())
        return z

    # -- model ---------------------------------------------------------------
    def instant(self, q):
        _, yo, which, delta, mode = q
        a, b = PX.transitions_utc(self.spec, min(Y0 + max(yo, 0), 9999))
        ts = (a if which == "start" else b) + delta
        if yo < 0:
            ts = self.first_any - 86400 * 200 * (-yo)
        # three days inside the representable range, so that every wall
        # reading of the instant exists (zones questioned in 9990-9999)
        return min(ts, TS_MAX)

    def judged_instant(self, q):
        """The instant whose rules decide the answer to q: for the imaginary
        wall times of the gap modes that is the onset the gap belongs to, not
        the (unused) delta-shifted instant."""
        if q[4].startswith("gap"):
            a, _b = PX.transitions_utc(self.spec, min(Y0 + max(q[1], 0), 9999))
            return a
        return self.instant(q)

    def judged_by_model(self, ts):
        if ts < self.first_all:
            return False
        if self.limit is not None and ts >= self.limit - 86400:
            return False
        return True

    def ask(self, zone, q):
        """Returns (key, answer) where answer = (off, name, dst, fold)."""
        ts = self.instant(q)
        mode = q[4]
        utc = (EPOCH + datetime.timedelta(seconds=ts)).replace(
            tzinfo=self.tz.UTC)
        if mode == "utc":
            d = utc.astimezone(zone)
        elif mode.startswith("gap"):
            # an imaginary wall time: inside the hour (or so) skipped when
            # daylight time starts in that year
            a, _b = PX.transitions_utc(self.spec, min(Y0 + max(q[1], 0), 9999))
            sav = self.spec["dstoff"] - self.spec["stdoff"]
            wall = EPOCH + datetime.timedelta(
                seconds=a + self.spec["stdoff"] + (abs(q[3]) % sav))
            d = wall.replace(tzinfo=zone, fold=1 if mode == "gap1" else 0)
        else:
            # wall-clock query: the wall reading of that instant (and one in
            # the gap when the instant is just after a forward change)
            off = PX.at(self.spec, ts)[0]
            wall = (EPOCH + datetime.timedelta(seconds=ts + off))
            d = wall.replace(tzinfo=zone, fold=1 if mode == "wall1" else 0)
        o, dst = d.utcoffset(), d.dst()
        return (int(o.total_seconds()), d.tzname(),
                int(dst.total_seconds()), d.fold,
                d.replace(tzinfo=None).isoformat())

    def expected(self, q):
        """Model answer or None when not judged by the model."""
        ts = self.instant(q)
        mode = q[4]
        spec = self.spec
        sav = spec["dstoff"] - spec["stdoff"]
        if ts < self.first_any - 86400:
            # before the first onset: the first STANDARD component
            self.ctx.probe("before_first_onset")
            if mode != "utc":
                return None
            if self.sc.get("dormant") == "before":
                # the first STANDARD component in the file is the dormant one
                self.ctx.probe("before_first_onset.dormant_first")
                return (spec["stdoff"] + DORMANT_SHIFT, DORMANT_NAME, 0)
            return (spec["stdoff"], spec["std"], 0)
        if not self.judged_by_model(ts):
            return None
        if mode == "utc":
            off, name, isdst = PX.at(spec, ts)
            return (off, name, sav if isdst else 0)
        if mode.startswith("gap"):
            self.ctx.probe("gap_wall_time")
            return None         # judged against tzrange only
        off0 = PX.at(spec, ts)[0]
        wall = ts + off0
        pre = []
        for cand_off in sorted(set([spec["stdoff"], spec["dstoff"]])):
            t = wall - cand_off
            if PX.at(spec, t)[0] == cand_off:
                pre.append(t)
        pre.sort()
        if len(pre) == 2:
            self.ctx.probe("fold_wall_time")
            t = pre[1] if mode == "wall1" else pre[0]
        elif len(pre) == 1:
            t = pre[0]
        else:
            self.ctx.probe("gap_wall_time")
            return None
        off, name, isdst = PX.at(spec, t)
        return (off, name, sav if isdst else 0)


def judge_query(zut, ctx, who, q, got):
    ctx.checks += 1
    want = zut.expected(q)
    ts = zut.instant(q)
    if want is not None and tuple(got[:3]) != tuple(want):
        ctx.violation("C17.wrong_answer",
                      dict(task=who, q=q, ts=ts, got=list(got),
                           want=list(want),
                           tz=PX.tz_string(zut.spec), form=zut.sc["form"]))
        return
    # same handling of gaps and folds as the tzrange of the same rules
    tj = zut.judged_instant(q)
    if zut.tzrange is not None and zut.judged_by_model(ts) and \
            zut.judged_by_model(tj) and \
            min(ts, tj) >= zut.first_all + 86400 * 370:
        ref = zut.ask(zut.tzrange, q)
        if tuple(ref[:3]) != tuple(got[:3]) or \
                (q[4] == "utc" and ref[3] != got[3]):
            ctx.violation("C17.differs_from_tzrange",
                          dict(task=who, q=q, ts=ts, got=list(got),
                               tzrange=list(ref),
                               tz=PX.tz_string(zut.spec),
                               form=zut.sc["form"]))


def cache_probe(zut, ctx, before, key):
    """Observe the lookup cache for reach measurement only."""
    z = zut.zone
    cd = getattr(z, "_cachedate", None)
    if cd is None:
        return
    if key in before:
        ctx.probe("lookup_cache_hit")
    else:
        ctx.probe("lookup_cache_miss")
        if len(before) >= 10:
            ctx.probe("lookup_cache_evict")


def execute(cls, scenario, ctx):
    import calendar
    import warnings
    warnings.simplefilter("ignore")
    # process-wide configuration the recurrence machinery behind the
    # components might consult; the rules carry their own BYDAY and do not
    # depend on it
    calendar.setfirstweekday(scenario.get("fwd", 0) % 7)
    if cls == "bad":
        return execute_bad(scenario, ctx)
    K.set_budget(30000000)
    try:
        zut = ZoneUnderTest(ctx, scenario)
    except BudgetExceeded as e:
        ctx.violation("liveness.budget", dict(msg=str(e), at="parse"))
        return
    except Deadlock as e:
        ctx.violation("liveness.deadlock", dict(msg=str(e), at="parse"))
        return
    finally:
        K.set_budget(None)
    ctx.event("zone", PX.tz_string(zut.spec), scenario["form"],
              scenario["nyears"])
    done = []
    if cls == "hist":
        hits = evicts = 0
        for q in scenario["ops"]:
            K.set_budget(3000000)
            before = list(getattr(zut.zone, "_cachedate", ()))
            try:
                got = zut.ask(zut.zone, q)
            except Deadlock as e:
                ctx.violation("liveness.deadlock", dict(q=q, msg=str(e)))
                continue
            except BudgetExceeded as e:
                ctx.violation("liveness.budget", dict(q=q, msg=str(e)))
                continue
            except Exception as e:
                ctx.violation("C17.query_raises",
                              dict(q=q, exc=type(e).__name__,
                                   msg=str(e)[:160]))
                continue
            finally:
                K.set_budget(None)
            after = list(getattr(zut.zone, "_cachedate", ()))
            if after and after[0] in before:
                hits += 1
                ctx.probe("lookup_cache_hit")
            elif after:
                ctx.probe("lookup_cache_miss")
                if len(before) >= 10:
                    evicts += 1
                    ctx.probe("lookup_cache_evict")
            ctx.event("main", q, got[:4])
            ctx.state(q[4], len(after), bool(hits), bool(evicts))
            judge_query(zut, ctx, "main", q, got)
            done.append((q, got))
        if hits and evicts:
            ctx.nontrivial = True
    else:
        st = scenario["sched"]
        nq = sum(len(p) for p in scenario["threads"])
        sched = Scheduler(st["strategy"], st.get("seed", 0),
                          tape=st.get("tape"), max_steps=600000 * (nq + 1))
        for ti, prog in enumerate(scenario["threads"]):
            def body(ti=ti, prog=prog):
                for q in prog:
                    try:
                        got = zut.ask(zut.zone, q)
                    except (Deadlock, BudgetExceeded):
                        raise
                    except Exception as e:
                        from dsim.kernel import SimBaseException
                        if isinstance(e, SimBaseException):
                            raise
                        with K.mute():
                            ctx.violation("C17.query_raises",
                                          dict(task="T%d" % ti, q=q,
                                               exc=type(e).__name__,
                                               msg=str(e)[:160]))
                        continue
                    with K.mute():
                        ctx.event("T%d" % ti, q, got[:4])
                        judge_query(zut, ctx, "T%d" % ti, q, got)
                        done.append((q, got))
            sched.spawn(body, "T%d" % ti)
        try:
            sched.run()
        finally:
            ctx.sched_summary = sched.summary()
        ctx.fault("preemption", sched.preemptions)
        if sched.switches:
            ctx.nontrivial = True
    # (1) history / schedule independence: a freshly parsed, never queried
    # copy gives the same answer to each question
    sample = done[:12] if cls == "hist" else done
    seen = set()
    for q, got in sample:
        key = repr(q)
        if key in seen:
            continue
        seen.add(key)
        K.set_budget(30000000)
        try:
            fresh = zut.parse()
            ref = zut.ask(fresh, q)
        except (Deadlock, BudgetExceeded) as e:
            ctx.violation("liveness.budget", dict(q=q, msg=str(e),
                                                  at="fresh copy"))
            continue
        finally:
            K.set_budget(None)
        ctx.checks += 1
        if tuple(ref) != tuple(got):
            ctx.violation("C17.history_dependent",
                          dict(q=q, got=list(got), fresh=list(ref),
                               tz=PX.tz_string(zut.spec),
                               form=scenario["form"]))
        else:
            ctx.probe("fresh_copy_agrees")


def execute_bad(scenario, ctx):
    from dateutil import tz
    spec, form, how = scenario["spec"], scenario["form"], scenario["how"]
    drop = extra = None
    if how.startswith("drop:"):
        drop = how[5:]
    elif how.startswith("extra:"):
        extra = how[6:]
    lines = vtimezone(spec, "Zone/One", form, scenario["daylight_first"], 5,
                      drop=drop, extra=extra)
    if how == "no_components":
        lines = ["BEGIN:VTIMEZONE", "TZID:Zone/One", "END:VTIMEZONE"]
    if how == "bad_offset":
        lines = [ln.replace("TZOFFSETTO:", "TZOFFSETTO:1") if
                 ln.startswith("TZOFFSETTO:") else ln for ln in lines]
    proper = None
    if how == "component_case":
        # component names in another letter case ("BEGIN:Daylight"): unknown
        # components to the unchanged tree (ValueError). A reader that is
        # lenient about case is acceptable too -- if it then reads the zone
        # right (dst() included)
        proper = "\n".join(lines) + "\n"
        style = (len(proper) % 3)
        conv = [str.title, str.lower, lambda s: s[0] + s[1:].lower()][style]
        lines = [ln.split(":")[0] + ":" + conv(ln.split(":", 1)[1])
                 if ln in ("BEGIN:DAYLIGHT", "END:DAYLIGHT",
                           "BEGIN:STANDARD", "END:STANDARD") else ln
                 for ln in lines]
    pos = scenario.get("pos", "alone")
    if pos != "alone" and scenario.get("other"):
        good = vtimezone(scenario["other"], "Zone/Two",
                         scenario["other_form"], False, 5)
        lines = (lines + good) if pos == "first" else (good + lines)
        ctx.probe("bad.next_to_good_zone")
    text = "\n".join(lines) + "\n"
    ctx.checks += 1
    ctx.nontrivial = True
    K.set_budget(3000000)
    try:
        ical = tz.tzical(io.StringIO(text))
        z = ical.get("Zone/One") if pos != "alone" else ical.get()
    except ValueError as e:
        ctx.probe("malformed_rejected")
        ctx.event("bad", how, pos, "ValueError")
    except (Deadlock, BudgetExceeded) as e:
        ctx.violation("liveness.budget", dict(how=how, msg=str(e)))
    except Exception as e:
        ctx.violation("C17.malformed_other_exception",
                      dict(how=how, exc=type(e).__name__, msg=str(e)[:160]))
    else:
        if proper is not None:
            ctx.probe("bad.lenient_reader_judged")
            good = tz.tzical(io.StringIO(proper)).get()
            for y in (1991, 1992, 1993):
                for m in range(1, 13):
                    d = datetime.datetime(y, m, 15, 12, tzinfo=tz.UTC)
                    a, b = d.astimezone(z), d.astimezone(good)
                    ga = (a.utcoffset(), a.tzname(), a.dst())
                    gb = (b.utcoffset(), b.tzname(), b.dst())
                    if ga != gb:
                        ctx.violation("C17.lenient_but_wrong",
                                      dict(how=how, at=d.isoformat(),
                                           got=repr(ga), want=repr(gb),
                                           text=text[:400]))
                        break
        else:
            ctx.violation("C17.malformed_accepted",
                          dict(how=how, text=text[:400]))
    finally:
        K.set_budget(None)


def simplify(cls, scenario):
    for k, v in (("fold_width", None), ("multi", False),
                 ("source", "stringio"), ("daylight_first", False),
                 ("dormant", None)):
        if scenario.get(k) not in (v, None) or \
                (k in scenario and scenario[k] and v is False):
            c = _copy.deepcopy(scenario)
            c[k] = v
            yield c
    if scenario.get("nyears", 0) > 3:
        c = _copy.deepcopy(scenario)
        c["nyears"] = 3
        yield c
