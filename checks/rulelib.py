"""Shared by C10/C11/C12: finite rule family, list/set reference model,
operation executor with per-operation oracle.

Scenario fragments are JSON-able; datetimes are [y, m, d, H, M, S] lists and
query arguments are symbolic references into the model list so that they stay
meaningful while a scenario is being shrunk.
"""
import datetime
import itertools

from dsim.kernel import K, Deadlock, BudgetExceeded
from dsim import depth as DP

LENGTH_BIAS = [0, 1, 2, 9, 10, 11, 19, 20, 21, 29, 30, 31, 39, 40, 41]


# When set (by the C10 driver, for a run whose set is "aware"), every
# datetime built from a scenario is timezone-aware, with one of these UTC
# offsets (minutes) picked from the datetime's own fields: the members of
# one set then spell instants in different offsets, and what must count is
# the instant, not the wall clock.
AWARE_OFFSETS = None
# When set (C10, some runs): every datetime carries this ONE zone object (a
# zone with daylight saving): comparisons inside one zone go by the wall
# clock, also in the repeated hour.
AWARE_ZONE = None


def _aw(d, key=0):
    if AWARE_ZONE is not None and d.tzinfo is None:
        return d.replace(tzinfo=AWARE_ZONE)
    if AWARE_OFFSETS is None or d.tzinfo is not None:
        return d
    off = AWARE_OFFSETS[key % len(AWARE_OFFSETS)]
    return d.replace(tzinfo=datetime.timezone(
        datetime.timedelta(minutes=off)))


def dt(x):
    return _aw(datetime.datetime(*x), sum(x))


def undt(d):
    if d.microsecond:
        return [d.year, d.month, d.day, d.hour, d.minute, d.second,
                d.microsecond]
    return [d.year, d.month, d.day, d.hour, d.minute, d.second]


# ---------------------------------------------------------------------------
# generation
# ---------------------------------------------------------------------------

LENGTH_BIAS_DEEP = LENGTH_BIAS + [49, 50, 51, 59, 60, 61, 99, 100, 101, 119,
                                  120, 121]


def gen_len(rng, maxlen=None):
    if maxlen is None:
        maxlen = DP.pick(45, 130)
    if rng.random() < 0.7:
        return rng.choice(DP.pick(LENGTH_BIAS, LENGTH_BIAS_DEEP))
    return rng.randrange(0, maxlen + 1)


def gen_rule(rng, length=None, start=None, cache=False, allow_until=True):
    """A finite rule spec."""
    if length is None:
        length = gen_len(rng)
    freq = rng.choice([0, 1, 2, 3, 3, 3, 4, 5])
    if start is None:
        start = [rng.choice([1999, 2000, 2020, 2024]), rng.randrange(1, 13),
                 rng.randrange(1, 29), rng.randrange(0, 24),
                 rng.choice([0, 0, 30]), 0]
    spec = dict(freq=freq, dtstart=start, interval=rng.choice([1, 1, 1, 2, 3]),
                cache=bool(cache))
    r = rng.random()
    if freq >= 2 and r < 0.25:
        spec["byweekday"] = sorted(rng.sample(range(7), rng.randrange(1, 4)))
    elif freq <= 1 and r < 0.2:
        spec["bymonthday"] = sorted(rng.sample([1, 5, 10, 15, 28, -1],
                                               rng.randrange(1, 3)))
    if allow_until and rng.random() < 0.25 and freq == 3 and \
            "byweekday" not in spec:
        # UNTIL-bounded daily rule of the requested length
        d0 = dt(start)
        if length == 0:
            until = d0 - datetime.timedelta(days=1)
        else:
            until = d0 + datetime.timedelta(
                days=spec["interval"] * (length - 1), hours=rng.choice([0, 5]))
        spec["until"] = undt(until)
    else:
        spec["count"] = length
    return spec


def gen_terminal_rule(rng, cache=True):
    """An open-ended rule (no COUNT, no UNTIL) that ends anyway, because it
    starts shortly before the last representable year is over: finite, the
    end is reached by running out of dates and not by a stated bound."""
    # (not WEEKLY: when the last week of 9999 reaches into year 10000 the
    # plain uncached listing itself ends in ValueError instead of stopping,
    # so there is no list L to compare with -- outside every property here)
    freq = rng.choice([0, 0, 1, 1, 3, 3, 4])
    if freq == 0:
        start = [rng.choice([9960, 9990, 9995, 9999]), rng.randrange(1, 13),
                 rng.randrange(1, 29), rng.randrange(0, 24), 0, 0]
    elif freq == 1:
        start = [rng.choice([9997, 9998, 9999, 9999]), rng.randrange(1, 13),
                 rng.choice([1, 15, 28, 31]), rng.randrange(0, 24), 0, 0]
        if start[2] == 31:
            start[1] = rng.choice([1, 3, 5, 7, 8, 10, 12])
    elif freq == 2:
        start = [9999, rng.choice([6, 10, 12]), rng.randrange(1, 29),
                 rng.randrange(0, 24), 0, 0]
    elif freq == 3:
        start = [9999, rng.choice([11, 12, 12]), rng.randrange(1, 31),
                 rng.randrange(0, 24), 30, 0]
    else:
        start = [9999, 12, rng.choice([29, 30, 31]), rng.randrange(0, 24),
                 0, 0]
    spec = dict(freq=freq, dtstart=start, interval=rng.choice([1, 1, 2, 3]),
                cache=bool(cache), terminal=True)
    if freq >= 2 and rng.random() < 0.25:
        spec["byweekday"] = sorted(rng.sample(range(7), rng.randrange(1, 4)))
    return spec


def gen_unbounded_rule(rng, cache=True):
    spec = gen_rule(rng, length=1, cache=cache, allow_until=False)
    spec.pop("count", None)
    spec["unbounded"] = True
    return spec


def gen_family_rule(rng, base, cache=False):
    """Rules on a common grid so that members overlap and coincide."""
    freq = rng.choice([3, 3, 2, 4])
    start = list(base)
    start[2] = 1 + rng.randrange(0, 5)
    start[3] = rng.choice([0, 0, 0, 12]) if freq != 4 else 0
    spec = dict(freq=freq, dtstart=start, interval=rng.choice([1, 1, 2, 3]),
                count=rng.choice(DP.pick([0, 1, 2, 3, 5, 8, 10, 11, 12],
                                         [0, 1, 3, 9, 10, 11, 19, 20, 21, 30,
                                          31, 40])),
                cache=bool(cache))
    if freq == 4:
        spec["interval"] = rng.choice([6, 12, 24])
    r = rng.random()
    if r < 0.12 and freq == 3:
        # ended by UNTIL instead of COUNT (possibly before the other
        # members even start)
        n = spec.pop("count")
        d0 = datetime.datetime(*start)
        try:
            spec["until"] = undt(d0 + datetime.timedelta(
                days=spec["interval"] * max(n - 1, 0),
                hours=rng.choice([0, 6])))
            if n == 0:
                spec["until"] = undt(d0 - datetime.timedelta(days=1))
        except OverflowError:
            spec.pop("until", None)
            spec["count"] = n
    elif r < 0.24 and freq in (2, 3):
        # a BYDAY part: the rule's own dtstart need not be an occurrence
        spec["byweekday"] = sorted(rng.sample(range(7), rng.choice([1, 2, 4])))
    return spec


def gen_family_date(rng, base):
    d = dt(list(base[:2]) + [1, 0, 0, 0]) + datetime.timedelta(
        days=rng.randrange(0, 14), hours=rng.choice([0, 0, 0, 12, 6]))
    if rng.random() < 0.12:
        # listed dates are kept exactly as given, sub-second part included
        # (rule occurrences always fall on whole seconds)
        d = d.replace(microsecond=rng.choice([1, 500000, 999999]))
    return undt(d)


def gen_set(rng, cache, max_rules=None, max_dates=None, member_cache_p=0.3):
    if max_rules is None:
        max_rules = DP.pick(4, 6)
    if max_dates is None:
        max_dates = DP.pick(6, 12)
    base = [rng.choice([2000, 2021]), rng.randrange(1, 13), 1, 0, 0, 0]
    if rng.random() < 0.04:
        # the first representable instants: 0001-01-01 00:00:00 onwards
        base = [1, 1, 1, 0, 0, 0]
    sc = dict(kind="set", cache=bool(cache), base=base, rrules=[], rdates=[],
              exrules=[], exdates=[])
    for _ in range(rng.choice([0, 1, 1, 2, 2, 3, max_rules])):
        sc["rrules"].append(gen_family_rule(
            rng, base, cache=rng.random() < member_cache_p))
    for _ in range(rng.choice([0, 0, 1, 2, 3, max_dates])):
        sc["rdates"].append(gen_family_date(rng, base))
    for _ in range(rng.choice([0, 0, 0, 1, 1, 2, max_rules])):
        sc["exrules"].append(gen_family_rule(
            rng, base, cache=rng.random() < member_cache_p))
    for _ in range(rng.choice([0, 0, 1, 2, max_dates])):
        sc["exdates"].append(gen_family_date(rng, base))
    return sc


def gen_ref(rng):
    """Symbolic datetime argument: element k (mod len) shifted by delta s, or
    far before/after."""
    r = rng.random()
    if r < 0.1:
        return ["far", rng.choice([-1, 1])]
    return ["at", rng.randrange(0, 48), rng.choice([0, 0, 0, -1, 1, 1800,
                                                    -86400 * 3])]


def gen_query(rng, finite=True, maxidx=48):
    """One query op (no handle)."""
    kinds = ["getitem", "slice", "contains", "before", "after", "between",
             "xafter"]
    if finite:
        kinds += ["count", "list", "getitem", "slice"]
    k = rng.choice(kinds)
    if k == "getitem":
        if finite:
            return ["getitem", rng.choice(
                [0, 1, -1, -2, 9, 10, 11, rng.randrange(-maxidx, maxidx)])]
        return ["getitem", rng.choice([0, 1, 9, 10, 11, 25,
                                       rng.randrange(0, maxidx)])]
    if k == "slice":
        def bound(neg=True):
            c = [None, 0, 1, 5, 9, 10, 11, 20, rng.randrange(0, maxidx)]
            if neg:
                c += [-1, -3, -10, -rng.randrange(1, maxidx)]
            return rng.choice(c)
        if finite:
            return ["slice", bound(), bound(),
                    rng.choice([None, None, 1, 2, 3, -1, -2, 0])]
        return ["slice", bound(False), rng.choice([0, 1, 5, 10, 11, 25]),
                rng.choice([None, 1, 2, 3])]
    if k == "contains":
        return ["contains", gen_ref(rng)]
    if k in ("before", "after"):
        return [k, gen_ref(rng), rng.random() < 0.5]
    if k == "between":
        return ["between", gen_ref(rng), gen_ref(rng), rng.random() < 0.5]
    if k == "xafter":
        cnt = rng.choice([None, 0, 1, 2, 5, 12]) if finite else \
            rng.choice([0, 1, 2, 5, 12])
        return ["xafter", gen_ref(rng), cnt, rng.random() < 0.5]
    return [k]


# ---------------------------------------------------------------------------
# building real objects
# ---------------------------------------------------------------------------

def build_rule(spec, cache=None):
    from dateutil import rrule as rr
    kw = {}
    for k in ("interval", "count", "byweekday", "bymonthday", "bymonth",
              "byhour", "bysetpos", "wkst", "byyearday", "byweekno",
              "byeaster", "byminute"):
        if k in spec and spec[k] is not None:
            kw[k] = spec[k]
    if spec.get("bynweekday"):
        # [[weekday, n], ...]: the n-th such weekday of the period
        kw["byweekday"] = [rr.weekday(w, n) for w, n in spec["bynweekday"]]
    if spec.get("until") is not None:
        kw["until"] = dt(spec["until"])
    c = spec.get("cache", False) if cache is None else cache
    if spec.get("implicit_dtstart"):
        # no dtstart given: the constructor takes "now" (the simulated clock
        # stands at spec["dtstart"] when the scenario builds its rules)
        return rr.rrule(spec["freq"], cache=c, **kw)
    return rr.rrule(spec["freq"], dtstart=dt(spec["dtstart"]), cache=c, **kw)


def build_set(spec, cache=None, member_cache=None, shared=None):
    """Build an rruleset from a set spec. `shared`: optional dict used to
    share member rule objects (keyed by role and position)."""
    from dateutil import rrule as rr
    c = spec.get("cache", False) if cache is None else cache
    s = rr.rruleset(cache=c)
    for i, r in enumerate(spec.get("rrules", ())):
        s.rrule(_member(r, member_cache, shared, ("r", i)))
    for d in spec.get("rdates", ()):
        s.rdate(dt(d))
    for i, r in enumerate(spec.get("exrules", ())):
        s.exrule(_member(r, member_cache, shared, ("x", i)))
    for d in spec.get("exdates", ()):
        s.exdate(dt(d))
    return s


def _member(rspec, member_cache, shared, key):
    if shared is not None and key in shared:
        return shared[key]
    m = build_rule(rspec, cache=member_cache)
    if shared is not None:
        shared[key] = m
    return m


def build_target(spec, cache=None, member_cache=None):
    if spec.get("kind") == "set":
        return build_set(spec, cache=cache, member_cache=member_cache)
    return build_rule(spec, cache=cache)


def model_list(spec, bound=None):
    """Reference list: the uncached twin (every member uncached too)."""
    twin = build_target(spec, cache=False, member_cache=False)
    saved = K.budget
    s0 = K.steps
    K.budget = s0 + MODEL_COST_CAP
    try:
        if spec.get("unbounded"):
            L = list(itertools.islice(twin, bound or 120))
        else:
            L = list(twin)
    except BudgetExceeded:
        raise ModelTooCostly()
    finally:
        K.budget = saved
    global LAST_MODEL_COST
    LAST_MODEL_COST = K.steps - s0
    return L


LAST_MODEL_COST = 0
MODEL_COST_CAP = 400000


class ModelTooCostly(Exception):
    """The uncached twin needs more than MODEL_COST_CAP line events to list
    (e.g. a rule that scans to year 9999 without matching): the scenario is
    skipped as trivial, deterministically."""


def budget_for(cost):
    """Step budget of one operation, from the measured cost (line events) of
    listing the uncached twin once."""
    return 6 * cost + 30000


def _unused():
    with K.mute():
        pass


def set_model(rules_L, rdates, exrules_L, exdates):
    """(U L(rrule_i) U rdates) - (U L(exrule_j) U exdates), sorted."""
    inc = set()
    for L in rules_L:
        inc.update(L)
    inc.update(rdates)
    exc = set()
    for L in exrules_L:
        exc.update(L)
    exc.update(exdates)
    return sorted(inc - exc)


# ---------------------------------------------------------------------------
# list-model answers
# ---------------------------------------------------------------------------

FAR = {-1: datetime.datetime(1, 1, 2), 1: datetime.datetime(9999, 12, 30)}


# instants of ALL members of the set under test, excluded ones included
# (set by the C10 driver; None elsewhere): "mem" references pick from it, so
# that queries also land exactly on occurrences an exclusion removes
MEMBER_INSTANTS = None


def resolve(ref, L, base):
    if ref[0] == "far":
        return _aw(FAR[ref[1]])
    if ref[0] == "abs":
        return dt(ref[1])
    _, k, delta = ref
    pool = L
    if ref[0] == "mem" and MEMBER_INSTANTS:
        pool = MEMBER_INSTANTS
    if pool:
        e = pool[k % len(pool)]
    else:
        e = base
    try:
        return e + datetime.timedelta(seconds=delta)
    except OverflowError:
        # next to the first or last representable instant
        return _aw(datetime.datetime.min if delta < 0 else
                   datetime.datetime.max.replace(microsecond=0))


def ridx(x, L):
    """Index expression: int, None, or ["len", off] meaning len(L)+off,
    ["neglen", off] meaning -len(L)+off."""
    if isinstance(x, list):
        if x[0] == "len":
            return len(L) + x[1]
        if x[0] == "neglen":
            return -len(L) + x[1]
        raise ValueError(x)
    return x


class Raises(object):
    def __init__(self, exc):
        self.exc = exc

    def __eq__(self, other):
        return isinstance(other, Raises) and other.exc == self.exc

    def __ne__(self, other):
        return not self == other

    def __repr__(self):
        return "Raises(%s)" % self.exc


def model_answer(op, L, base):
    k = op[0]
    if k == "count":
        return len(L)
    if k == "list":
        return list(L)
    if k == "getitem":
        try:
            return L[ridx(op[1], L)]
        except IndexError:
            return Raises("IndexError")
    if k == "slice":
        try:
            return L[ridx(op[1], L):ridx(op[2], L):op[3]]
        except ValueError:
            return Raises("ValueError")
    if k == "contains":
        return resolve(op[1], L, base) in L
    if k == "after":
        t = resolve(op[1], L, base)
        for e in L:
            if e > t or (op[2] and e == t):
                return e
        return None
    if k == "before":
        t = resolve(op[1], L, base)
        last = None
        for e in L:
            if e < t or (op[2] and e == t):
                last = e
        return last
    if k == "between":
        a = resolve(op[1], L, base)
        b = resolve(op[2], L, base)
        if op[3]:
            return [e for e in L if a <= e <= b]
        return [e for e in L if a < e < b]
    if k == "xafter":
        t = resolve(op[1], L, base)
        out = [e for e in L if e > t or (op[3] and e == t)]
        if op[2] is not None:
            out = out[:op[2]]
        return out
    raise ValueError("no model for %r" % (op,))


def real_answer(op, target, L, base):
    """Issue the query to the real object. Returns value or Raises(name)."""
    k = op[0]
    try:
        if k == "count":
            return target.count()
        if k == "list":
            return list(target)
        if k == "getitem":
            return target[ridx(op[1], L)]
        if k == "slice":
            return target[ridx(op[1], L):ridx(op[2], L):op[3]]
        if k == "contains":
            return resolve(op[1], L, base) in target
        if k == "after":
            return target.after(resolve(op[1], L, base), inc=op[2])
        if k == "before":
            return target.before(resolve(op[1], L, base), inc=op[2])
        if k == "between":
            return target.between(resolve(op[1], L, base),
                                  resolve(op[2], L, base), inc=op[3])
        if k == "xafter":
            return list(target.xafter(resolve(op[1], L, base), count=op[2],
                                      inc=op[3]))
    except (Deadlock, BudgetExceeded):
        raise
    except Exception as e:
        return Raises(type(e).__name__)
    raise ValueError("no executor for %r" % (op,))


def show(v):
    """Compact JSON-able rendering of an answer."""
    if isinstance(v, datetime.datetime):
        return v.isoformat()
    if isinstance(v, list):
        if len(v) > 6:
            return [show(x) for x in v[:3]] + ["...(%d)" % len(v)] + \
                   [show(x) for x in v[-2:]]
        return [show(x) for x in v]
    if isinstance(v, Raises):
        return repr(v)
    return v


def is_unbounded_safe(op):
    """Queries that terminate on an unbounded rule and whose answer lies
    inside the model prefix."""
    k = op[0]
    for a in op[1:]:
        if isinstance(a, list) and a and a[0] == "far" and a[1] > 0:
            return False
    if k in ("count", "list"):
        return False
    if k == "getitem":
        return isinstance(op[1], int) and op[1] >= 0
    if k == "slice":
        a, b, c = op[1], op[2], op[3]
        if isinstance(a, list) or isinstance(b, list):
            return False
        return (b is not None and b >= 0 and (a is None or a >= 0) and
                (c is None or c > 0))
    if k == "xafter":
        return op[2] is not None
    if k == "before":
        return True
    return True


class Client(object):
    """Executes iterator/query ops for one thread of control against one
    target and checks every answer against the list model."""

    def __init__(self, ctx, target, L, base, name="main", unbounded=False,
                 prop="C11"):
        self.ctx = ctx
        self.target = target
        self.L = L
        self.base = base
        self.name = name
        self.unbounded = unbounded
        self.its = {}       # handle -> [iterator, position, started, done]
        self.prop = prop

    def live_started(self):
        return sum(1 for v in self.its.values() if v[2] and not v[3])

    def do(self, op):
        """Run one op. Returns True when an oracle comparison was made."""
        ctx = self.ctx
        k = op[0]
        L = self.L
        if k == "iter":
            self.its[op[1]] = [iter(self.target), 0, False, False, L]
            ctx.event(self.name, "iter", op[1])
            return False
        if k == "xiter":
            # a live xafter() generator: advanced step by step like any other
            # iterator, interleaved with the rest
            _, h, ref, cnt, inc = op
            if self.unbounded and cnt is None:
                cnt = 12
            if self.unbounded and not is_unbounded_safe(["xafter", ref, cnt,
                                                         inc]):
                return False
            with K.mute():
                want = model_answer(["xafter", ref, cnt, inc], L, self.base)
            gen = self.target.xafter(resolve(ref, L, self.base), count=cnt,
                                     inc=inc)
            self.its[h] = [gen, 0, False, False, want]
            ctx.event(self.name, "xiter", h, len(want))
            ctx.probe("live_xafter_generator")
            return False
        if k in ("next", "drain", "close"):
            rec = self.its.get(op[1])
            if rec is None:
                return False
            if k == "close":
                close = getattr(rec[0], "close", None)
                if close is not None:
                    close()
                rec[3] = True
                ctx.event(self.name, "close", op[1], rec[1])
                ctx.probe("iterator_abandoned")
                del self.its[op[1]]
                return False
            n = op[2] if k == "next" else None
            if k == "drain" and self.unbounded:
                n = 25
            L = rec[4]
            bounded_model = self.unbounded and rec[4] is self.L
            got = 0
            while n is None or got < n:
                if rec[3]:
                    break
                try:
                    v = next(rec[0])
                except StopIteration:
                    rec[3] = True
                    with K.mute():
                        if rec[1] != len(L) or bounded_model:
                            ctx.violation(
                                "%s.iter_short" % self.prop,
                                dict(task=self.name, handle=op[1],
                                     stopped_at=rec[1], expected_len=len(L)))
                    break
                except (Deadlock, BudgetExceeded):
                    raise
                except Exception as e:
                    ctx.violation("%s.iter_raises" % self.prop,
                                  dict(task=self.name, handle=op[1],
                                       pos=rec[1], exc=type(e).__name__,
                                       msg=str(e)[:200]))
                    rec[3] = True
                    break
                rec[2] = True
                with K.mute():
                    pos = rec[1]
                    if pos >= len(L):
                        if bounded_model:
                            # beyond the model bound: stop consuming
                            break
                        ctx.violation("%s.iter_long" % self.prop,
                                      dict(task=self.name, handle=op[1],
                                           pos=pos, got=show(v),
                                           expected_len=len(L)))
                    elif v != L[pos]:
                        ctx.violation("%s.iter_wrong" % self.prop,
                                      dict(task=self.name, handle=op[1],
                                           pos=pos, got=show(v),
                                           want=show(L[pos])))
                    rec[1] = pos + 1
                    ctx.checks += 1
                got += 1
            ctx.event(self.name, k, op[1], rec[1], rec[3])
            return True
        # plain query
        if self.unbounded and not is_unbounded_safe(op):
            return False
        got = real_answer(op, self.target, L, self.base)
        with K.mute():
            want = model_answer(op, L, self.base)
            if self.unbounded and isinstance(want, list) and \
                    isinstance(got, list):
                # the model list is only a prefix of an unbounded rule
                pass
            ctx.checks += 1
            ctx.event(self.name, op, show(got))
            if got != want:
                ctx.violation("%s.query_wrong" % self.prop,
                              dict(task=self.name, op=op, got=show(got),
                                   want=show(want), len=len(L)))
            if isinstance(got, list) and got:
                # the caller owns a returned list: changing it in place must
                # not reach the recurrence's own state
                got.reverse()
                del got[0]
        return True
