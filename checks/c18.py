"""C18 — zone factories return one shared object per key, safely under
threads.

Classes
  threads  2-4 real threads issuing requests/drops/copies; pre-emption at every
           line of tz/_factories.py and tz/tz.py and at every lock operation
  deep     the same, with pure-Python weakref.py pre-emptible as well (the
           check-then-store window inside WeakValueDictionary.setdefault)
  hist     one thread, long histories over a key pool larger than the strong
           caches: requests, reference drops, explicit GC, cache_clear,
           set_cache_size, process-TZ changes, file-system faults
"""
import copy as _copy
import datetime
import gc
import os
import pickle
import time
import weakref

from dsim.kernel import K, Scheduler, Deadlock, BudgetExceeded
from . import zoneworld as ZW

PROPERTY = "C18"
SRC_DIR = None
KNOWN_PREDICATES = {}
LEVEL_TEXT = (
    "Seeded search over request histories and thread schedules: 2-4 real "
    "threads (and long single-thread histories) issue gettz / tzoffset / "
    "tzstr / tzutc requests over a key pool larger than the strong caches, "
    "drop references, force GC, clear and resize caches, copy and pickle "
    "zones, change the process TZ and meet injected file-system faults, "
    "with pre-emption at every source line of the factory code (deep class: "
    "also inside pure-Python weakref.py). Checked over the recorded history "
    "on global event numbers: identity per key and cache epoch, no exception "
    "in fault-free runs, fresh-but-equal nocache/instance results, fully "
    "built zones, equality laws, retention bounds, no caching of local "
    "zones or None, liveness. Sampling, not enumeration."
    ' Session 3 added: pickles read back by a process that has built no zone yet (fresh-process oracle), strong-cache sizes 0-2 for all three factories, copies of file zones under file faults, fixed-offset file zones, zero-offset local settings, calibrated pre-emption points.')
LEVEL_NOTE = (
    "Trusted: SimLock as a model of _thread.lock; line-granularity "
    "pre-emption in tz/_factories.py, tz/tz.py (and weakref.py in the deep "
    "class); reference-count finalisation of CPython 3.12 with the cyclic GC "
    "disabled and run only at explicit events; glibc tzset/localtime are real "
    "code; synthetic well-behaved TZif zones served from an in-memory file "
    "system.")
TECHNIQUE = ("deterministic simulation: seeded thread schedules, GC/drop "
             "events and file-system faults over the zone factories, history "
             "checked against an identity/retention model")
RULE = ("one evaluation = one seeded run (per-thread request programs + "
        "schedule, or one long single-thread history with faults); "
        "non-trivial = at least two requests for one key whose executions "
        "overlapped in the global event order (threads/deep) or at least one "
        "eviction/GC/cache_clear between two requests of one key (hist); "
        "distinct = distinct SHA-1 of the full event history")
EXPECTED_PROBES = ["overlapping_requests_same_key", "acquire_blocked",
                   "weakref_died_between_requests",
                   "served_from_strong_cache_unreferenced",
                   "strong_cache_full", "fallback_second_tzpath",
                   "archive_served", "local_zone_after_set_tz"]

REAL = ['dateutil.tz factories (gettz, tzoffset, tzstr, tzutc), tzfile, dateutil.zoneinfo from /repo/src', 'CPython weakref.WeakValueDictionary (pre-emptible in the deep class), OrderedDict, pickle, copy', 'reference counting of CPython 3.12', 'glibc tzset under the real TZ variable', 'real OS threads (parked; one runs at a time)']
STUB = ['factory mutexes (SimLock)', 'thread scheduling (LINE events of tz/_factories.py, tz/tz.py, and weakref.py in the deep class)', 'cyclic GC timing (disabled; explicit gc events) and reference drops as events', 'file system and bundled archive (SimFS) with injected faults', 'zone data: generated well-behaved TZif files']

CLASSES = {
    "threads": dict(quick=5000, thorough=80000, timeout=40),
    "deep":    dict(quick=5000, thorough=80000, timeout=40),
    "hist":    dict(quick=5000, thorough=80000, timeout=40),
}


def TARGET_FILES(cls):
    files = ["tz/_factories.py", "tz/tz.py"]
    if cls == "deep":
        files.append(weakref.__file__)
    return files


# ---------------------------------------------------------------------------
# key pools
# ---------------------------------------------------------------------------

FILE_NAMES = ["Zone/F%d" % i for i in range(10)]        # in zi1
FILE2_NAMES = ["Zone/G%d" % i for i in range(3)]        # only in zi2
DUP_NAME = "Dup/X"                                      # in both, differing
SPACE_NAME = "Sp ace/Y"                                 # file Sp_ace/Y in zi1
ARCH_NAMES = ["Arch/A%d" % i for i in range(3)]         # bundled archive only
POSIX = ["EST5EDT", "EST5", "AAA3BBB,M3.2.0/2,M11.1.0/2", "XYZ-9", "UTC+3",
         "GMT-2", "CET-1CEST,M3.5.0,M10.5.0/3"]
OTHER = ["UTC", "GMT", "Nowhere/None", "abc", "EST", "EDT", "CET", ":Zone/F0",
         ZW.ZI1 + "/Zone/F1", "/sim/nowhere", "12bad", None, ""]
# Every daylight-saving setting carries explicit rules: for a TZ string
# without them glibc borrows the rules of its "posixrules" file, and under
# that fallback localtime() is not a function of (TZ, instant) -- after a
# mktime() call the same instant is reported with the other offset (checked
# with the time module alone, no dateutil involved). Such settings would make
# any history-independence oracle report libc, not dateutil.
TZ_SETTINGS = [None, "EST5EDT,M3.2.0,M11.1.0", "CET-1CEST,M3.5.0,M10.5.0/3",
               "UTC", "WET0", "XYZ0", "GMT0",
               # the TZ variable naming a zone FILE (found in the simulated
               # tree by gettz() / gettz(""), unknown to the C library)
               ":Zone/F1", "Zone/F2"]

OFF_NAMES = ["A", "B", None]
# (1172 / 1172.5 / 1173 and 0 / -0.000001 / -1: offsets that differ by less
# than a second are different keys)
OFFSETS = [0, 3600, -18000, 19800, 1, -86399, 1172.5, -0.000001, 1172, 1173,
           -1]


def zone_number(name):
    """Synthetic zone content number for a file/archive name."""
    allnames = FILE_NAMES + FILE2_NAMES + [DUP_NAME, "Sp_ace/Y"] + ARCH_NAMES
    return allnames.index(name)


def build_world(ctx):
    w = ZW.World(ctx)
    fs = w.fs
    specs = {}
    for n in FILE_NAMES:
        # the last two are fixed-offset zones: no transitions at all, the
        # whole difference between them sits in the type table
        specs[ZW.ZI1 + "/" + n] = ZW.simple_zone(
            zone_number(n), ntrans=0 if n in FILE_NAMES[-2:] else 6)
    for n in FILE2_NAMES:
        specs[ZW.ZI2 + "/" + n] = ZW.simple_zone(zone_number(n))
    # one zone with a NEGATIVE saving (standard time in summer, the daylight
    # flag on the winter type, as Europe/Dublin has it)
    neg = ZW.simple_zone(zone_number(FILE_NAMES[7]))
    std = neg["types"][0][0]
    neg["types"] = [(std, False, "IST"), (std - 3600, True, "GMT")]
    specs[ZW.ZI1 + "/" + FILE_NAMES[7]] = neg
    specs[ZW.ZI1 + "/" + DUP_NAME] = ZW.simple_zone(zone_number(DUP_NAME))
    specs[ZW.ZI2 + "/" + DUP_NAME] = ZW.simple_zone(40)
    specs[ZW.ZI1 + "/Sp_ace/Y"] = ZW.simple_zone(zone_number("Sp_ace/Y"))
    for p, z in specs.items():
        fs.add_file(p, ZW.zone_bytes(z))
    arch = {}
    for n in ARCH_NAMES:
        z = ZW.simple_zone(zone_number(n))
        specs["arch:" + n] = z
        arch[n] = ZW.zone_bytes(z)
    w.set_bundle(arch)
    w.specs = specs
    return w


# ---------------------------------------------------------------------------
# generation
# ---------------------------------------------------------------------------

def gen_request(rng, names, slot):
    r = rng.random()
    if r < 0.45:
        return ["gettz", slot, rng.choice(names)]
    if r < 0.70:
        off = rng.choice(OFFSETS)
        sp = rng.choice(["int", "float", "td"])
        return ["tzoffset", slot, rng.choice(OFF_NAMES), [sp, off]]
    if r < 0.90:
        return ["tzstr", slot, rng.choice(POSIX), rng.random() < 0.3]
    return ["tzutc", slot]


def gen_thread_prog(rng, names, n):
    ops = []
    slots = ["s0", "s1", "s2"]
    for _ in range(n):
        r = rng.random()
        slot = rng.choice(slots)
        if r < 0.62:
            ops.append(gen_request(rng, names, slot))
        elif r < 0.74:
            ops.append(["drop", slot])
        elif r < 0.82:
            ops.append(["use", slot])
        elif r < 0.87:
            ops.append([rng.choice(["pickle", "copy", "deepcopy"]), slot,
                        rng.choice([0, 1, 2, 3, 4, 5])])
        elif r < 0.91:
            k = rng.choice(["nocache", "instance_off", "instance_str",
                            "mk_local", "mk_range"])
            if k in ("mk_local", "mk_range"):
                ops.append([k, slot, rng.choice(POSIX)])
            elif k == "nocache":
                ops.append(["nocache", slot, rng.choice(names)])
            elif k == "instance_off":
                ops.append(["instance_off", slot, rng.choice(OFF_NAMES),
                            ["int", rng.choice(OFFSETS)]])
            else:
                ops.append(["instance_str", slot, rng.choice(POSIX)])
        elif r < 0.925:
            # a request with an argument no zone can be made of: it raises,
            # and the factories go on serving everybody afterwards
            ops.append(["bad_request", rng.choice(
                ["off_huge", "off_none_str", "off_nan", "name_unhashable",
                 "tzstr_junk", "tzstr_none"])])
        elif r < 0.94:
            ops.append(["cache_clear"])
        elif r < 0.97:
            ops.append(["set_cache_size", rng.choice([0, 1, 2, 8, 10])])
        else:
            ops.append(["gc"])
    return ops


def gen_names(rng, small):
    if small:
        # few keys so that concurrent requests collide
        pool = [rng.choice(FILE_NAMES), rng.choice(FILE_NAMES),
                rng.choice(FILE2_NAMES + [DUP_NAME, SPACE_NAME]),
                rng.choice(ARCH_NAMES), rng.choice(POSIX),
                rng.choice(OTHER)]
        if rng.random() < 0.4:
            # the same file under its ':name' spelling: a key of its own
            pool.append(":" + pool[0])
        return pool
    return FILE_NAMES + FILE2_NAMES + [DUP_NAME, SPACE_NAME] + ARCH_NAMES + \
        POSIX + OTHER + [":" + n for n in FILE_NAMES[:3]]


def gen_strategy(rng):
    kind = rng.choice(["random", "random", "pb", "pbx", "pbx", "pbx", "pct",
                       "crit"])
    if kind == "pbx":
        # pre-emption points drawn over the measured length of the run
        return dict(kind="pbx", k=rng.choice([1, 1, 2, 3]))
    if kind == "crit":
        return dict(kind="crit", k=rng.choice([1, 2, 3]),
                    q=rng.choice([0.05, 0.15, 0.4]),
                    p=rng.choice([0.0, 0.02, 0.1]))
    if kind == "random":
        return dict(kind="random", p=rng.choice([0.02, 0.05, 0.1, 0.3, 1.0]))
    if kind == "pb":
        return dict(kind="pb", k=rng.choice([0, 1, 2, 3]),
                    horizon=rng.choice([60, 200, 800]))
    return dict(kind="pct", d=rng.choice([1, 2, 3, 4]),
                horizon=rng.choice([60, 200, 800]))


def generate(cls, rng):
    from dsim import depth as DP
    knobs = dict(off_size=rng.choice([8, 8, 1, 2, 3, 0]),
                 str_size=rng.choice([8, 8, 1, 2, 0]),
                 # strong-cache size of gettz, set through its public
                 # set_cache_size() before the run starts: with a small one
                 # the weak index is the only thing between a request and a
                 # zone whose last reference another thread is dropping
                 gettz_size=rng.choice([8, 8, 8, 0, 1, 2]),
                 tz=rng.choice(TZ_SETTINGS),
                 bundle=rng.random() < 0.8)
    if cls in ("threads", "deep"):
        names = gen_names(rng, small=True)
        nthreads = rng.choice(DP.pick([2, 2, 3, 4], [3, 4, 4, 5]))
        if rng.random() < 0.5:
            # focused: every thread asks for the same few keys
            focus = [gen_request(rng, names, "s0") for _ in range(2)]
            threads = []
            for _ in range(nthreads):
                prog = []
                for _ in range(rng.randrange(1, DP.pick(6, 12))):
                    r = rng.random()
                    if r < 0.7:
                        op = list(rng.choice(focus))
                        op[1] = rng.choice(["s0", "s1"])
                        prog.append(op)
                    elif r < 0.85:
                        prog.append(["drop", rng.choice(["s0", "s1"])])
                    else:
                        prog.append(["use", rng.choice(["s0", "s1"])])
                threads.append(prog)
        else:
            threads = [gen_thread_prog(rng, names,
                                       rng.randrange(1, DP.pick(10, 20)))
                       for _ in range(nthreads)]
        strategy = gen_strategy(rng)
        if rng.random() < 0.2:
            # maintenance race: one thread does nothing but cache_clear /
            # set_cache_size / gc while the others keep requesting more
            # distinct keys than the (small) strong caches hold, under dense
            # random switching
            knobs["gettz_size"] = rng.choice([0, 1, 2])
            knobs["off_size"] = rng.choice([0, 1, 2])
            knobs["str_size"] = rng.choice([0, 1, 2])
            pool = gen_names(rng, small=False)
            threads = []
            for _ in range(max(2, nthreads) - 1):
                prog = []
                for _ in range(rng.randrange(3, DP.pick(9, 16))):
                    prog.append(gen_request(rng, pool,
                                            rng.choice(["s0", "s1", "s2"])))
                threads.append(prog)
            maint = []
            for _ in range(rng.randrange(3, 10)):
                r = rng.random()
                if r < 0.5:
                    maint.append(["cache_clear"])
                elif r < 0.85:
                    maint.append(["set_cache_size",
                                  rng.choice([0, 1, 2, 8])])
                else:
                    maint.append(["gc"])
            threads.append(maint)
            strategy = dict(kind="random", p=rng.choice([0.15, 0.3, 0.5]))
        return dict(knobs=knobs, threads=threads,
                    sched=dict(strategy=strategy,
                               seed=rng.getrandbits(32)))
    # hist
    names = gen_names(rng, small=False)
    ops = []
    slots = ["s%d" % i for i in range(6)]
    faults_on = rng.random() < 0.5
    for _ in range(rng.randrange(10, DP.pick(60, 200))):
        r = rng.random()
        slot = rng.choice(slots)
        if r < 0.50:
            ops.append(gen_request(rng, names, slot))
        elif r < 0.62:
            ops.append(["drop", slot])
        elif r < 0.68:
            ops.append(["gc"])
        elif r < 0.73:
            ops.append(["use", slot])
        elif r < 0.78:
            ops.append([rng.choice(["pickle", "copy", "deepcopy"]), slot,
                        rng.choice([0, 1, 2, 3, 4, 5])])
        elif r < 0.82:
            ops.append(["cache_clear"])
        elif r < 0.86:
            ops.append(["set_cache_size", rng.choice([0, 1, 2, 3, 8, 10])])
        elif r < 0.90:
            ops.append(["set_tz", rng.choice(TZ_SETTINGS)])
        elif r < 0.92:
            ops.append(["nocache", slot, rng.choice(names)])
        elif r < 0.94:
            ops.append([rng.choice(["mk_local", "mk_range"]), slot,
                        rng.choice(POSIX)])
        elif faults_on:
            target = rng.choice(
                [ZW.ZI1 + "/" + n for n in FILE_NAMES[:4] + [DUP_NAME]])
            kind = rng.choice(["enoent", "eacces", "vanish_after_stat",
                               "eio_at", "garbage", "heal"])
            f = dict(kind=kind)
            if kind == "eio_at":
                f["k"] = rng.choice([1, 2, 3, 4, 6])
            ops.append(["fault", target, f])
        elif r < 0.97:
            # the zone file is rewritten with the same content (new
            # modification time, new inode): not a reason for a second object
            ops.append(["touch", rng.choice(FILE_NAMES[:6])])
        else:
            ops.append(["gc"])
    return dict(knobs=knobs, ops=ops, faults=faults_on)


# ---------------------------------------------------------------------------
# execution
# ---------------------------------------------------------------------------

def off_value(sp):
    kind, v = sp
    if kind == "int":
        return v
    if kind == "float":
        return float(v)
    return datetime.timedelta(seconds=v)


class Registry(object):
    """Ordinal numbers for zone objects without keeping them alive."""

    def __init__(self):
        self.by_id = {}
        self.n = 0
        self.refs = []          # (weakref, api, provenance)

    def ordinal(self, obj, api, prov):
        ent = self.by_id.get(id(obj))
        if ent is not None and ent[0]() is obj:
            return ent[1]
        self.n += 1
        try:
            wr = weakref.ref(obj)
        except TypeError:
            wr = (lambda o=obj: o)
        self.by_id[id(obj)] = (wr, self.n)
        self.refs.append((wr, api, prov))
        return self.n

    def alive(self, api, prov=None):
        n = 0
        for wr, a, p in self.refs:
            if a == api and (prov is None or p == prov) and wr() is not None:
                n += 1
        return n


class Sim(object):
    """Shared state of one run: world, history, held references."""

    PROBE_TS = [946684800 + 86400 * 400, 946684800 + 86400 * 600,
                946684800 + 86400 * 1000]

    def __init__(self, ctx, scenario, fault_class=False):
        from dateutil import tz
        self.tz = tz
        self.ctx = ctx
        self.world = build_world(ctx)
        self.reg = Registry()
        self.seq = 0
        self.epoch = 0              # gettz cache epoch (odd: clear in flight)
        self.held = {}              # (task, slot) -> record
        self.requests = []
        self.gettz_size = 8
        self.fault_class = fault_class
        self.faulted = set()
        self.overlaps = 0
        self.between_events = 0
        kn = scenario.get("knobs", {})
        self.off_size = kn.get("off_size", 8)
        self.str_size = kn.get("str_size", 8)
        self._set_knob(tz.tzoffset, "_TzOffsetFactory__strong_cache_size",
                       self.off_size)
        self._set_knob(tz.tzstr, "_TzStrFactory__strong_cache_size",
                       self.str_size)
        if kn.get("gettz_size", 8) != 8:
            tz.gettz.set_cache_size(kn["gettz_size"])
            self.gettz_size = kn["gettz_size"]
        self.world.set_tz(kn.get("tz"))
        self.tzenv = kn.get("tz")
        if not kn.get("bundle", True):
            # the bundled archive is absent for the whole run (as it is in
            # this source tree): that branch of the chain yields nothing
            self.world.bundle = None
        self.fresh = None
        self.inflight = {}          # task -> request being executed
        self.last_by_key = {}
        self.tz_changes = 0
        self.size_calls = []

    def _set_knob(self, cls, attr, value):
        if hasattr(cls, attr):
            setattr(cls, attr, value)
        else:
            # refactored tree: knob unavailable, keep the default
            if "off" in attr.lower():
                self.off_size = 8
            else:
                self.str_size = 8

    def tick(self):
        self.seq += 1
        return self.seq

    # -- name resolution model ---------------------------------------------
    def resolve_model(self, name):
        """Descriptor of what gettz(name) must produce from scratch under the
        current file system, faults and process TZ. ('raise',) means the
        documented chain propagates an exception for that input."""
        fs = self.world.fs
        if not name:
            env = self.tzenv
            if env is None or env in ("", ":"):
                return ("local",)
            name = env
        if name.startswith(":"):
            name = name[1:]
        if name.startswith("/"):
            if name in fs.files and name not in self.faulted:
                return ("file", name)
            if name in fs.files:
                return ("any",)
            return ("none",)
        for root in (ZW.ZI1, ZW.ZI2):
            p = root + "/" + name
            if p not in fs.files:
                p = p.replace(" ", "_")
                if p not in fs.files:
                    continue
            if p in self.faulted:
                f = fs.faults.get(p, {})
                if f.get("kind") in ("enoent", "eacces", "vanish_after_stat",
                                     "eio_at", "garbage"):
                    continue        # documented: skipped, next candidate
                return ("any",)
            return ("file", p)
        if self.world.bundle is not None and \
                self.world.bundle_fault is None and \
                ("arch:" + name) in self.world.specs:
            return ("arch", name)
        if self.world.bundle_fault is not None:
            # archive unavailable: chain continues (with a warning)
            pass
        if any(c in "0123456789" for c in name):
            try:
                with K.mute():
                    self.tz.tzstr.instance(name)
                return ("tzstr", name)
            except ValueError:
                return ("none",)
        if name in ("GMT", "UTC"):
            return ("utc",)
        if name in time.tzname:
            return ("local",)
        return ("none",)

    def content_ok(self, obj, desc):
        """Does obj carry the content the descriptor promises?"""
        tz = self.tz
        kind = desc[0]
        if kind == "any":
            return True
        if kind == "none":
            return obj is None
        if obj is None:
            return False
        if kind == "utc":
            return obj is tz.UTC
        if kind == "local":
            return isinstance(obj, tz.tzlocal) and obj == tz.tzlocal()
        if kind == "tzstr":
            return isinstance(obj, tz.tzstr) and \
                obj == tz.tzstr.instance(desc[1])
        if kind in ("file", "arch"):
            if not isinstance(obj, tz.tzfile):
                return False
            spec = self.world.specs[desc[1] if kind == "file"
                                    else "arch:" + desc[1]]
            return self.zone_matches(obj, spec)
        return False

    def zone_matches(self, obj, spec):
        for ts in self.PROBE_TS:
            got = ZW.observe(obj, ts)
            i = -1
            for j, t in enumerate(spec["trans"]):
                if t <= ts:
                    i = j
            if i < 0 or i >= len(spec["trans"]) - 1:
                continue
            off, isdst, abbr = spec["types"][spec["idx"][i]]
            if got[0] != off or got[1] != abbr or \
                    (got[2] != 0) != bool(isdst):
                return False
        return True


class Actor(object):
    """One thread of control issuing operations."""

    def __init__(self, sim, name):
        self.sim = sim
        self.name = name

    def key_of(self, op):
        k = op[0]
        if k == "gettz":
            return ("gettz", op[2])
        if k == "tzoffset":
            v = op[3][1]
            return ("tzoffset", op[2], float(v))
        if k == "tzstr":
            return ("tzstr", op[2], bool(op[3]))
        if k == "tzutc":
            return ("tzutc",)
        return None

    def call(self, op):
        tz = self.sim.tz
        k = op[0]
        if k == "gettz":
            return tz.gettz(op[2])
        if k == "tzoffset":
            return tz.tzoffset(op[2], off_value(op[3]))
        if k == "tzstr":
            return tz.tzstr(op[2], posix_offset=op[3]) if op[3] else \
                tz.tzstr(op[2])
        if k == "tzutc":
            return tz.tzutc()
        if k == "nocache":
            return tz.gettz.nocache(op[2])
        if k == "instance_off":
            return tz.tzoffset.instance(op[2], off_value(op[3]))
        if k == "instance_str":
            return tz.tzstr.instance(op[2])
        if k == "mk_local":
            return tz.tzlocal()
        if k == "mk_range":
            # the tzrange that states the same rules as a TZ string
            ref = tz.tzstr.instance(op[2])
            return tz.tzrange(ref._std_abbr, ref._std_offset, ref._dst_abbr,
                              ref._dst_offset if ref._dst_abbr else None,
                              start=ref._start_delta, end=ref._end_delta) \
                if hasattr(ref, "_std_abbr") else ref
        raise ValueError(op)

    def do(self, op):
        sim = self.sim
        ctx = sim.ctx
        k = op[0]
        if k in ("gettz", "tzoffset", "tzstr", "tzutc"):
            return self.request(op)
        if k in ("nocache", "instance_off", "instance_str", "mk_local",
                 "mk_range"):
            return self.fresh(op)
        if k == "bad_request":
            tz = sim.tz
            try:
                if op[1] == "off_huge":
                    tz.tzoffset("A", 1e16)
                elif op[1] == "off_none_str":
                    tz.tzoffset("A", "one hour")
                elif op[1] == "off_nan":
                    tz.tzoffset("A", float("nan"))
                elif op[1] == "name_unhashable":
                    tz.tzoffset(["A"], 3600)
                elif op[1] == "tzstr_junk":
                    tz.tzstr("EST5EDT,@")
                else:
                    tz.tzstr(None)
            except (Deadlock, BudgetExceeded):
                raise
            except Exception as e:
                with K.mute():
                    sim.tick()
                    ctx.probe("bad_request_raised")
                    ctx.event(self.name, "bad_request", op[1],
                              type(e).__name__)
            else:
                with K.mute():
                    sim.tick()
                    ctx.event(self.name, "bad_request", op[1], "returned")
            return
        if k == "drop":
            with K.mute():
                rec = sim.held.pop((self.name, op[1]), None)
                sim.tick()
                ctx.event(self.name, "drop", op[1],
                          rec["ord"] if rec else None)
            # the reference dies here, outside the muted section, so that
            # weakref callbacks are pre-emptible in the deep class
            rec = None
            return
        if k == "gc":
            gc.collect()
            with K.mute():
                sim.tick()
                sim.between_events += 1
                ctx.event(self.name, "gc")
                self.check_retention("gc")
            return
        if k == "cache_clear":
            with K.mute():
                sim.epoch += 1
                sim.tick()
            sim.tz.gettz.cache_clear()
            with K.mute():
                sim.epoch += 1
                sim.tick()
                sim.between_events += 1
                ctx.event(self.name, "cache_clear")
            return
        if k == "set_cache_size":
            with K.mute():
                inv = sim.tick()
            sim.tz.gettz.set_cache_size(op[1])
            with K.mute():
                ret = sim.tick()
                # which of two overlapping calls took effect last is not
                # observable: the bound is the largest size among the latest
                # call and every call that overlapped it
                sim.size_calls.append((inv, ret, op[1]))
                last = sim.size_calls[-1]
                sim.gettz_size = max(
                    sz for (i0, r0, sz) in sim.size_calls
                    if not (r0 < last[0] or i0 > last[1]))
                sim.between_events += 1
                ctx.event(self.name, "set_cache_size", op[1])
            return
        if k == "set_tz":
            sim.world.set_tz(op[1])
            sim.tzenv = op[1]
            sim.tz_changes += 1
            sim.tick()
            ctx.event(self.name, "set_tz", op[1])
            ctx.probe("set_tz")
            return
        if k == "fault":
            self.arm_fault(op)
            return
        if k == "touch":
            with K.mute():
                fs = sim.world.fs
                p = ZW.ZI1 + "/" + op[1]
                if p in fs.files:
                    fs.replace_file(p, fs.files[p])
                    ctx.fault("file_touched")
                    ctx.event(self.name, "touch", op[1])
            return
        if k == "use":
            rec = sim.held.get((self.name, op[1]))
            if rec is not None:
                with K.mute():
                    self.check_zone(rec)
            return
        if k in ("pickle", "copy", "deepcopy"):
            rec = sim.held.get((self.name, op[1]))
            if rec is not None and rec["obj"] is not None:
                self.copy_check(op, rec)
            return
        raise ValueError(op)

    # -- cached requests -----------------------------------------------------
    def request(self, op):
        sim = self.sim
        ctx = sim.ctx
        key = self.key_of(op)
        with K.mute():
            req = dict(key=key, inv=sim.tick(), ret=None, task=self.name,
                       e0=sim.epoch)
            for other in sim.inflight.values():
                if other["key"] == key:
                    sim.overlaps += 1
                    ctx.probe("overlapping_requests_same_key")
            sim.inflight[self.name] = req
            desc = None
            if key[0] == "gettz":
                desc = sim.resolve_model(op[2])
        try:
            obj = self.call(op)
        except (Deadlock, BudgetExceeded):
            raise
        except Exception as e:
            with K.mute():
                sim.inflight.pop(self.name, None)
                sim.tick()
                ctx.event(self.name, op, "raised", type(e).__name__)
                allowed = sim.fault_class and key[0] == "gettz" and \
                    (desc == ("any",) or self.touches_fault(op[2]))
                if not allowed:
                    ctx.violation("C18.raises",
                                  dict(task=self.name, op=op,
                                       exc=type(e).__name__, msg=str(e)[:200]))
                else:
                    ctx.probe("faulted_request_raised")
            return
        with K.mute():
            sim.inflight.pop(self.name, None)
            req["ret"] = sim.tick()
            req["e1"] = sim.epoch
            api = key[0]
            # results for None / "" depend on the process TZ, like local
            # zones: no identity obligation across requests
            # (the empty string IS a key: what it resolves to -- unless that
            # is a local zone -- is indexed under "" like any other name)
            local = api == "gettz" and (isinstance(obj, sim.tz.tzlocal) or
                                        op[2] is None)
            prov = self.provenance(op, obj)
            o = None if obj is None else sim.reg.ordinal(obj, api, prov)
            req["ord"] = o
            ctx.checks += 1
            # I1: identity with every object of this key that was returned
            # before this request started and is still held, same epoch
            if obj is not None and not local:
                for (task, slot), rec in sorted(sim.held.items()):
                    if rec["key"] != key or rec["obj"] is None:
                        continue
                    if rec["local"]:
                        continue
                    # a request belongs to a definite cache epoch only if
                    # no cache_clear overlapped it
                    same_epoch = (api != "gettz" or
                                  (rec["e0"] == rec["e1"] == req["e0"] ==
                                   req["e1"] and req["e0"] % 2 == 0))
                    if not same_epoch:
                        continue
                    if rec["ret"] < req["inv"] and rec["obj"] is not obj:
                        ctx.violation(
                            "C18.identity",
                            dict(key=key, first=rec["ord"], second=o,
                                 first_task=task, second_task=self.name,
                                 note="earlier result still referenced, "
                                      "later request returned another "
                                      "object"))
                    elif rec["obj"] is not obj:
                        # overlapping requests: two live objects for one key
                        ctx.violation(
                            "C18.two_live_objects",
                            dict(key=key, first=rec["ord"], second=o,
                                 first_task=task, second_task=self.name,
                                 note="concurrent requests ended with two "
                                      "different live objects for one key"))
            # content: what was returned is a fully built zone of the right
            # kind for this key
            if api == "gettz":
                if desc is not None and not self.gettz_ok(op[2], obj, desc):
                    ctx.violation("C18.wrong_zone",
                                  dict(task=self.name, name=op[2],
                                       expected=list(desc), got=repr(obj)))
            # reach probes
            last = sim.last_by_key.get(key)
            if last is not None and o is not None:
                if last[1]() is None:
                    ctx.probe("weakref_died_between_requests")
                elif last[0] == o and not any(
                        r["obj"] is obj for r in sim.held.values()):
                    ctx.probe("served_from_strong_cache_unreferenced")
            if o is not None:
                try:
                    sim.last_by_key[key] = (o, weakref.ref(obj))
                except TypeError:
                    pass
            if prov == "arch":
                ctx.probe("archive_served")
            if prov == "file" and ZW.ZI2 in repr(obj):
                ctx.probe("fallback_second_tzpath")
            if api == "gettz" and isinstance(obj, sim.tz.tzlocal) and \
                    sim.tz_changes:
                ctx.probe("local_zone_after_set_tz")
            rec = dict(key=key, obj=obj, ord=o, ret=req["ret"],
                       inv=req["inv"], e0=req["e0"], e1=req["e1"],
                       local=local, op=op, prov=prov)
            sim.held[(self.name, op[1])] = rec
            if obj is not None:
                self.check_zone(rec)
            ctx.event(self.name, op, o, local)
            ctx.state(api, len(sim.held) > 3, sim.epoch // 2 > 0)
            rec = None
            obj = None

    def touches_fault(self, name):
        sim = self.sim
        if not name:
            return False
        n = name[1:] if name.startswith(":") else name
        cands = [n, ZW.ZI1 + "/" + n, ZW.ZI2 + "/" + n,
                 (ZW.ZI1 + "/" + n).replace(" ", "_")]
        return any(c in sim.faulted for c in cands)

    def provenance(self, op, obj):
        tz = self.sim.tz
        if obj is None:
            return "none"
        if op[0] in ("gettz", "nocache"):
            if isinstance(obj, tz.tzfile):
                r = repr(obj)
                return "file" if "/sim/" in r else "arch"
            if isinstance(obj, tz.tzstr):
                return "tzstr"
            if isinstance(obj, tz.tzlocal):
                return "local"
            return "other"
        return op[0]

    def gettz_ok(self, name, obj, desc):
        """The result is either what the chain gives from scratch now, or (a
        cached object) what it gave when the key was first resolved."""
        sim = self.sim
        if sim.content_ok(obj, desc):
            return True
        if name == "":
            # gettz("") is cached under the key "" although it reads the TZ
            # variable; the property only asks for identity per name, so a
            # result matching any TZ setting of this run is accepted
            saved = sim.tzenv
            try:
                for env in TZ_SETTINGS:
                    sim.tzenv = env
                    d = sim.resolve_model("")
                    if d[0] == "local" or sim.content_ok(obj, d):
                        return True
            finally:
                sim.tzenv = saved
        if not sim.fault_class:
            return False
        # under faults a previously cached object may legitimately be served
        # and a fallback may have been cached earlier ("fallback is not
        # corruption"): accept the outcome of any stage of the documented
        # chain for this name, never anything else
        n = name[1:] if name and name.startswith(":") else name
        n = str(n)
        descs = [("none",), ("utc",)] if n in ("GMT", "UTC") else [("none",)]
        for cand in (n, ZW.ZI1 + "/" + n, ZW.ZI2 + "/" + n,
                     (ZW.ZI1 + "/" + n).replace(" ", "_")):
            if cand in sim.world.specs:
                descs.append(("file", cand))
        if ("arch:" + n) in sim.world.specs:
            descs.append(("arch", n))
        if any(c in "0123456789" for c in n):
            descs.append(("tzstr", n))
        if n in time.tzname:
            descs.append(("local",))
        for d in descs:
            try:
                if sim.content_ok(obj, d):
                    return True
            except ValueError:
                pass
        return False

    # -- fresh constructors ---------------------------------------------------
    def fresh(self, op):
        sim = self.sim
        ctx = sim.ctx
        with K.mute():
            desc = sim.resolve_model(op[2]) if op[0] == "nocache" else None
            sim.tick()
        try:
            obj = self.call(op)
        except (Deadlock, BudgetExceeded):
            raise
        except Exception as e:
            with K.mute():
                allowed = sim.fault_class and op[0] == "nocache" and \
                    (desc == ("any",) or self.touches_fault(op[2]))
                ctx.event(self.name, op, "raised", type(e).__name__)
                if not allowed:
                    ctx.violation("C18.raises",
                                  dict(task=self.name, op=op,
                                       exc=type(e).__name__, msg=str(e)[:200]))
            return
        with K.mute():
            sim.tick()
            ctx.checks += 1
            prov = self.provenance(op, obj)
            o = None if obj is None else sim.reg.ordinal(obj, "fresh", prov)
            must_be_fresh = op[0] != "nocache" or prov == "file"
            ctx.probe("fresh." + op[0])
            if must_be_fresh and obj is not None:
                for rec in sim.held.values():
                    if rec["obj"] is obj:
                        ctx.violation("C18.not_fresh",
                                      dict(task=self.name, op=op,
                                           same_as=rec["ord"]))
            if op[0] == "nocache" and desc is not None and \
                    not self.gettz_ok(op[2], obj, desc):
                ctx.violation("C18.wrong_zone",
                              dict(task=self.name, name=op[2], via="nocache",
                                   expected=list(desc), got=repr(obj)))
            # fresh results are equal to the cached object of the same key
            if obj is not None:
                if op[0] == "nocache":
                    # (the key '' stands for "whatever TZ says now": the
                    # object cached under it answers for the setting it was
                    # built under, a fresh one for the current setting)
                    twin_key = ("gettz", op[2]) if op[2] != "" else None
                elif op[0] == "instance_off":
                    twin_key = ("tzoffset", op[2], float(op[3][1]))
                elif op[0] == "mk_local":
                    twin_key = None
                else:
                    # tzstr.instance, and the tzrange stating the same rules
                    twin_key = ("tzstr", op[2], False)
                for rec in sim.held.values():
                    if rec["key"] == twin_key and rec["obj"] is not None \
                            and not rec["local"] and not sim.fault_class:
                        if not (obj == rec["obj"] and rec["obj"] == obj):
                            ctx.violation("C18.fresh_not_equal",
                                          dict(task=self.name, op=op,
                                               cached=rec["ord"]))
            rec = dict(key=("fresh",) + tuple(map(str, op[2:])), obj=obj,
                       ord=o, ret=sim.seq, inv=sim.seq, e0=sim.epoch,
                       e1=sim.epoch, local=True, op=op, prov=prov)
            sim.held[(self.name, op[1])] = rec
            ctx.event(self.name, op, o)
            rec = None
            obj = None

    # -- per-object checks ------------------------------------------------------
    def expected_answers(self, rec):
        """[(ts, (off, name, dst))] a fully built zone of this request must
        give, or None when only self-consistency can be asked."""
        sim = self.sim
        op = rec["op"]
        k = op[0]
        if k in ("tzoffset", "instance_off"):
            v = op[3][1]
            return [(ts, (v, op[2], 0)) for ts in sim.PROBE_TS]
        if k == "tzutc":
            return [(ts, (0, "UTC", 0)) for ts in sim.PROBE_TS]
        if k in ("tzstr", "instance_str", "mk_range"):
            posix = bool(op[3]) if k == "tzstr" else False
            ref = sim.tz.tzstr.instance(op[2], posix)
            return [(ts, ZW.observe(ref, ts)) for ts in sim.PROBE_TS]
        return None

    def check_zone(self, rec):
        sim = self.sim
        ctx = sim.ctx
        obj = rec["obj"]
        if obj is None:
            return
        ctx.checks += 1
        try:
            if not (obj == obj) or (obj != obj):
                ctx.violation("C18.eq_not_reflexive", dict(ord=rec["ord"]))
            exp = self.expected_answers(rec)
            if exp is not None:
                for ts, want in exp:
                    got = ZW.observe(obj, ts)
                    if got != want:
                        ctx.violation("C18.half_built_or_wrong",
                                      dict(op=rec["op"], ts=ts, got=got,
                                           want=want))
            # symmetry / agreement with every other held zone
            for (task, slot), other in sorted(sim.held.items()):
                o2 = other["obj"]
                if o2 is None or o2 is obj:
                    continue
                a = (obj == o2)
                b = (o2 == obj)
                if bool(a) != bool(b):
                    ctx.violation("C18.eq_not_symmetric",
                                  dict(a=rec["ord"], b=other["ord"]))
                if a and b:
                    if not (rec["local"] or other["local"]) or True:
                        for ts in sim.PROBE_TS:
                            g1 = ZW.observe(obj, ts)
                            g2 = ZW.observe(o2, ts)
                            if g1[0] != g2[0]:
                                ctx.violation(
                                    "C18.equal_zones_disagree",
                                    dict(a=rec["ord"], b=other["ord"], ts=ts,
                                         got=[g1, g2]))
        except (Deadlock, BudgetExceeded):
            raise
        except Exception as e:
            if not isinstance(e, AssertionError):
                ctx.violation("C18.use_raises",
                              dict(op=rec["op"], exc=type(e).__name__,
                                   msg=str(e)[:200]))

    def copy_check(self, op, rec):
        sim = self.sim
        ctx = sim.ctx
        obj = rec["obj"]
        if rec["prov"] == "arch":
            # archive zones pickle by name through the bundled archive; only
            # meaningful while the simulated bundle is in place
            if sim.world.bundle is None or sim.world.bundle_fault:
                return
        # (a zone that came from a file is copied and pickled by value: what
        # happens to the file afterwards -- the armed faults of the fault
        # runs -- must not matter)
        import warnings
        try:
            with warnings.catch_warnings():
                warnings.simplefilter("ignore")
                if op[0] == "pickle":
                    c = pickle.loads(pickle.dumps(obj, op[2]))
                elif op[0] == "copy":
                    c = _copy.copy(obj)
                else:
                    c = _copy.deepcopy(obj)
        except (Deadlock, BudgetExceeded):
            raise
        except Exception as e:
            with K.mute():
                ctx.violation("C18.copy_raises",
                              dict(op=op, of=rec["op"], exc=type(e).__name__,
                                   msg=str(e)[:200]))
            return
        with K.mute():
            ctx.checks += 1
            ctx.probe("copy_" + op[0])
            if not (c == obj and obj == c):
                ctx.violation("C18.copy_not_equal",
                              dict(op=op, of=rec["op"]))
            for ts in sim.PROBE_TS:
                if ZW.observe(c, ts) != ZW.observe(obj, ts):
                    ctx.violation("C18.copy_behaves_differently",
                                  dict(op=op, of=rec["op"], ts=ts))
            if op[0] == "pickle" and sim.fresh is not None and \
                    rec["prov"] != "arch":
                # the same pickle read back by a process that has built no
                # zone yet must behave like the original
                import base64
                ans = sim.fresh.ask(dict(
                    blob=base64.b64encode(pickle.dumps(obj, op[2])).decode(),
                    tz=sim.tzenv, probes=sim.PROBE_TS))
                ctx.checks += 1
                ctx.probe("pickle_read_by_fresh_process")
                here = [list(ZW.observe(obj, ts)) for ts in sim.PROBE_TS]
                if ans[0] == "oracle-raised":
                    raise RuntimeError("fresh-process oracle: %r" % (ans,))
                if ans[0] != "ok":
                    ctx.violation("C18.pickle_unusable_in_fresh_process",
                                  dict(op=op, of=rec["op"], exc=ans[1],
                                       msg=ans[2]))
                elif ans[1] != here:
                    ctx.violation("C18.pickle_differs_in_fresh_process",
                                  dict(op=op, of=rec["op"], here=here,
                                       fresh=ans[1]))
            ctx.event(self.name, op, rec["ord"])
        c = None

    # -- retention -----------------------------------------------------------------
    def check_retention(self, when):
        """Zones alive with no harness reference never exceed the strong-cache
        size of their factory (gc has just run)."""
        sim = self.sim
        ctx = sim.ctx
        if sim.inflight:
            # a request that is being executed by a parked thread keeps the
            # zone it is about to return alive from its own frame: such an
            # object is neither cached nor leaked, so the bound is only
            # meaningful when no request is in flight
            ctx.probe("retention_check_skipped_request_in_flight")
            return
        heldobjs = set(id(r["obj"]) for r in sim.held.values()
                       if r["obj"] is not None)

        def unheld(api, prov=None):
            n = 0
            for wr, a, p in sim.reg.refs:
                o = wr()
                if o is not None and a == api and \
                        (prov is None or p == prov) and id(o) not in heldobjs:
                    n += 1
            return n
        n_off = unheld("tzoffset")
        n_file = unheld("gettz", "file")
        n_str = unheld("tzstr") + unheld("gettz", "tzstr")
        ctx.state("retention", min(n_off, 9), min(n_file, 11), min(n_str, 9))
        if n_off > sim.off_size:
            ctx.violation("C18.retention",
                          dict(factory="tzoffset", alive_unreferenced=n_off,
                               bound=sim.off_size, when=when))
        if n_file > sim.gettz_size and not sim.resized_recently():
            ctx.violation("C18.retention",
                          dict(factory="gettz", alive_unreferenced=n_file,
                               bound=sim.gettz_size, when=when))
        if n_str > sim.str_size + sim.gettz_size:
            ctx.violation("C18.retention",
                          dict(factory="tzstr", alive_unreferenced=n_str,
                               bound=sim.str_size + sim.gettz_size,
                               when=when))
        if n_off == sim.off_size or n_file == sim.gettz_size:
            ctx.probe("strong_cache_full")

    def arm_fault(self, op):
        sim = self.sim
        ctx = sim.ctx
        _, target, f = op
        if f["kind"] == "heal":
            sim.world.fs.disarm()
            sim.world.bundle_fault = None
            sim.faulted.clear()
            ctx.event(self.name, "heal")
            return
        if f["kind"] == "bundle_enoent":
            sim.world.bundle_fault = "enoent"
            sim.faulted.add("bundle")
            ctx.event(self.name, "fault", "bundle")
            return
        sim.world.fs.arm(target, f)
        sim.faulted.add(target)
        ctx.event(self.name, "fault", target, f)


def _resized_recently(self):
    return False


Sim.resized_recently = _resized_recently


def _unpickle_and_observe(req):
    """Runs in a process that has never constructed a zone."""
    import base64
    import warnings
    warnings.simplefilter("ignore")
    tzv = req["tz"]
    if tzv is None:
        os.environ.pop("TZ", None)
    else:
        os.environ["TZ"] = tzv
    time.tzset()
    try:
        z = pickle.loads(base64.b64decode(req["blob"]))
        return ["ok", [list(ZW.observe(z, ts)) for ts in req["probes"]]]
    except Exception as e:
        return ["exc", type(e).__name__, str(e)[:200]]


def execute(cls, scenario, ctx):
    import warnings
    warnings.simplefilter("ignore")
    fault_class = bool(scenario.get("faults"))
    sim = Sim(ctx, scenario, fault_class)
    ctx.event("knobs", scenario.get("knobs"))
    if cls == "hist":
        # a process that has built no zone yet: pickles are read back there
        # (a restart with only the pickled bytes surviving)
        from dsim.fresh import FreshProcess
        sim.fresh = FreshProcess(_unpickle_and_observe)
        actor = Actor(sim, "main")
        K.set_budget(3000000)
        try:
            for op in scenario["ops"]:
                try:
                    actor.do(op)
                except Deadlock as e:
                    ctx.violation("liveness.deadlock",
                                  dict(op=op, msg=str(e)))
            finish(sim, ctx, actor)
        except BudgetExceeded as e:
            ctx.violation("liveness.budget", dict(msg=str(e)))
        finally:
            K.set_budget(None)
            sim.fresh.close()
        if sim.between_events:
            ctx.nontrivial = True
        return
    st = scenario["sched"]
    sched = Scheduler(st["strategy"], st.get("seed", 0), tape=st.get("tape"),
                      max_steps=400000)
    actors = []
    for i, prog in enumerate(scenario["threads"]):
        a = Actor(sim, "T%d" % i)
        actors.append(a)

        def body(a=a, prog=prog):
            for op in prog:
                a.do(op)
        sched.spawn(body, a.name)
    try:
        sched.run()
    finally:
        ctx.sched_summary = sched.summary()
    ctx.fault("preemption", sched.preemptions)
    ctx.count("strategy." + st["strategy"]["kind"])
    if sim.overlaps:
        ctx.nontrivial = True
    finish(sim, ctx, actors[0])


def finish(sim, ctx, actor):
    """Quiescence: identity among everything still held, then retention."""
    with K.mute():
        groups = {}
        for (task, slot), rec in sorted(sim.held.items()):
            if rec["obj"] is None or rec["local"]:
                continue
            if rec["key"][0] == "fresh":
                continue
            if rec["key"][0] == "gettz":
                if rec["e0"] != rec["e1"] or rec["e0"] % 2:
                    continue        # overlapped a cache_clear: no epoch
                ep = rec["e0"]
            else:
                ep = 0
            groups.setdefault((rec["key"], ep), []).append(rec)
        for (key, ep), recs in sorted(groups.items(), key=lambda kv: repr(kv[0])):
            first = recs[0]
            for r in recs[1:]:
                if r["obj"] is not first["obj"] and ep % 2 == 0:
                    ctx.violation("C18.two_live_objects",
                                  dict(key=key, first=first["ord"],
                                       second=r["ord"], when="quiescence"))
        groups = first = r = recs = rec = None
    # drop everything, collect, check retention, clear, check nothing survives
    sim.held.clear()
    gc.collect()
    with K.mute():
        actor.check_retention("end")
    sim.tz.gettz.cache_clear()
    gc.collect()
    with K.mute():
        n = 0
        for wr, a, p in sim.reg.refs:
            if a == "gettz" and p == "file" and wr() is not None:
                n += 1
        if n:
            ctx.violation("C18.retention",
                          dict(factory="gettz", alive_after_cache_clear=n))
        ctx.event("end", sim.seq)


def simplify(cls, scenario):
    kn = scenario.get("knobs", {})
    for k, v in (("off_size", 8), ("str_size", 8), ("gettz_size", 8),
                 ("tz", None)):
        if kn.get(k) != v:
            c = _copy.deepcopy(scenario)
            c["knobs"][k] = v
            yield c
