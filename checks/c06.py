"""C06 — tzfile reports exactly what the TZif data says; every load path of the
same data gives equal, identically behaving zones.

Classes
  paths   fault-free: one logical zone (synthetic shapes, or a byte copy of a
          system zone file when present) is made available through every load
          path inside one simulated file system and loaded in a generated
          order; decoding is compared with an independent RFC 8536 reader
  faults  the same world with injected I/O faults placed inside the read
          sequence; relaxed oracle: may fail, may fall back, may not lie
"""
import copy as _copy
import datetime
import io
import os
import pickle
import struct

from dsim.kernel import K, Deadlock, BudgetExceeded
from dsim.simfs import SimFile
from models import tzif
from . import zoneworld as ZW

PROPERTY = "C06"
SRC_DIR = None
LEVEL_TEXT = (
    "Seeded search over file-system worlds and fault placements: one TZif "
    "zone (synthetic shapes incl. those absent from real data, and byte "
    "copies of system zone files) is loaded through gettz by name (first / "
    "second TZPATHS entry, space-to-underscore, ':' prefix), by absolute "
    "path, tzfile(path), tzfile(stream) (seekable, unnamed, chunked), "
    "ZoneInfoFile archives incl. link members, the bundled-archive fallback, "
    "and pickle/copy, in a generated order inside an in-memory file system; "
    "all loaded zones must be equal and agree with an independent RFC 8536 "
    "reader at every transition +-1 s/+-1 h/mid-interval. The fault class "
    "injects ENOENT/EACCES/TOCTOU/EIO-at-read-k/truncation/garbage/short "
    "reads inside the read sequence with the relaxed oracle 'may fail or fall "
    "back along the documented chain, never a wrong zone', and checks that "
    "file handles are closed on every exit path. Decoding itself is "
    "input sampling and is reported as such."
    " Session 3 added: stat metadata in the simulated file system with the event 'file replaced by another zone of the same length under the same / a new stat stamp', archive entry orders (links before targets), a hard link to a root-level namesake, forward-only and read()-only streams, the local-time file route of gettz(), sub-second instants, permuted type tables, up to 256 local time types, abbreviations stored as tails of others.")
LEVEL_NOTE = (
    "Trusted: the harness' RFC 8536 reader (version-1 block, which is what "
    "dateutil decodes) and TZif writer; the in-memory file system behind "
    "dateutil.tz.tz's open/os names and TZPATHS; tarfile/gzip are real code. "
    "Instants at or after the last recorded transition are compared across "
    "load paths only. Wall times with more than two pre-images (offset jumps "
    "larger than the transition spacing) cannot be represented with fold and "
    "are not judged.")
TECHNIQUE = ("deterministic simulation of file-system worlds with injected "
             "I/O faults; decoding checked against an independent TZif reader")
RULE = ("one evaluation = one simulated file-system world with one logical "
        "zone, a generated sequence of loads through different paths and (in "
        "the fault class) one or more armed faults; non-trivial = at least "
        "two different load paths succeeded and at least one judged probe "
        "instant (paths), or at least one fault fired (faults); distinct = "
        "distinct SHA-1 of the full event history")
EXPECTED_PROBES = ["load.sibling", "load.pickle_after_file_changed",
                   "archive_order.links_first", "archive_order.sorted",
                   "load.gettz_localtime",
                   "load.gettz_env",
                   "load.gettz_name", "load.gettz_second", "load.gettz_space",
                   "load.gettz_colon", "load.gettz_abs", "load.tzfile_path",
                   "load.tzfile_stream", "load.archive", "load.archive_link",
                   "load.bundle", "load.pickle", "shape.same_offset",
                   "shape.dst_dst", "shape.negative_dst", "shape.base_change",
                   "shape.big_jump", "shape.no_transitions", "shape.one_type",
                   "system_zone"]

REAL = ['dateutil.tz.tz tzfile/gettz, dateutil.zoneinfo from /repo/src', 'tarfile, gzip, io.BufferedReader, pickle, copy from CPython', 'byte copies of the system zone files under /usr/share/zoneinfo when present', 'real OS threads in the threads class']
STUB = ["file system (SimFS behind tz.tz's open/os names, TZPATHS/TZFILES)", 'streams with injected faults (SimFile)', 'bundled archive (dateutil.zoneinfo.get_data serves a generated tar.gz)', 'thread scheduling in the threads class', 'zone data: generated TZif files (harness writer) besides the system files']

CLASSES = {
    # every system zone file once, every transition probed (exhaustive over
    # the files present; runs beyond the number of files wrap around)
    "system": dict(quick=700, thorough=1400, timeout=120),
    "paths":  dict(quick=2500, thorough=60000, timeout=60),
    "faults": dict(quick=2500, thorough=60000, timeout=60),
    # one zone object shared by 2-3 threads that convert instants
    # concurrently: "behave identically" must not depend on the schedule
    "threads": dict(quick=1200, thorough=30000, timeout=60),
}


def TARGET_FILES(cls):
    if cls == "threads":
        return ["tz/tz.py", "tz/_common.py"]
    return ["tz/tz.py", "zoneinfo/__init__.py"]


# ---------------------------------------------------------------------------
# known findings: predicates over the failing input only
# ---------------------------------------------------------------------------

def _pred_short_abbr_table(scenario, invariant, detail):
    """The stream delivered fewer bytes than asked for inside the
    abbreviation table (short read or torn file) and no indicator bytes
    follow that would expose the misalignment."""
    return bool(detail.get("short_abbr_table"))


def _pred_tight_spacing(scenario, invariant, detail):
    """D7c: the probe lies within a day of an interval between two
    transitions that is shorter than the offset change at one of its ends
    ("offset changes larger than the spacing of transitions"): the wall time
    then belongs to a period that is not adjacent to the transition nearest
    on the wall clock, which the adjacent-transition lookup cannot find.
    Computed from the TZif data and the probe instant only."""
    return bool(detail.get("tight_spacing"))


KNOWN_PREDICATES = {"short_abbr_table": _pred_short_abbr_table,
                    "tight_spacing": _pred_tight_spacing}


def tight_spacing(ref, ts, reach=93600):
    tr = ref.trans
    offs = [ref.first_standard()[0]] + [ref.types[i][0] for i in ref.idx]
    # offs[j+1] is the offset in force from tr[j]
    for j in range(len(tr) - 1):
        if tr[j + 1] < ts - reach or tr[j] > ts + reach:
            continue
        length = tr[j + 1] - tr[j]
        change_in = abs(offs[j + 1] - offs[j])
        change_out = abs(offs[j + 2] - offs[j + 1])
        if length < max(change_in, change_out):
            return True
    return False


# ---------------------------------------------------------------------------
# zone generation
# ---------------------------------------------------------------------------

# "HST" is stored as the tail of "AHST" (and "ST" of both) in the
# abbreviation table, as zic does for America/Adak
ABBRS = ["AHST", "HST", "ST",
         "LMT", "AST", "ADT", "BST", "GMT", "IST", "XYZT", "WXST", "A", "+03",
         "-0330", "LONGABBR", "ABCDEFGH", "+103045", "-093015"]


def _off(rng, lo=-11 * 3600, hi=12 * 3600):
    return rng.randrange(lo // 900, hi // 900 + 1) * 900


def gen_zone(rng):
    from dsim import depth as DP
    mode = rng.choice(["plain", "plain", "abbr_change", "dst_dst",
                       "negative_dst", "base_change", "big_jump", "random",
                       "random", "no_transitions", "one_type"])
    if rng.random() < 0.04:
        # offsets far outside the civil -12..+14 h range (the format allows
        # anything that fits 32 bits; Python anything short of 24 h): falls
        # and rises of more than a day between consecutive types
        t0 = rng.choice([-600000000, 0, 500000000]) + \
            rng.randrange(0, 86400 * 300)
        offs = [rng.choice([15, 18, 20, -15, -18, -20, 0, 5, -12]) * 3600 +
                rng.choice([0, 1800, 59 * 60]) for _ in range(5)]
        # (all standard time: with a daylight flag the difference to the
        # preceding standard offset would have to be a legal dst() value)
        xt = [[o, False, ["XAA", "XBB", "XCC", "XDD", "XEE"][i]]
              for i, o in enumerate(offs)]
        k = rng.randrange(3, 9)
        return dict(kind="synthetic", mode="extreme_offsets",
                    trans=[t0 + 200 * 86400 * j for j in range(k)],
                    idx=[(j + 1) % 5 for j in range(k)], types=xt,
                    isstd=[], isgmt=[], leaps=[], version=2)
    if rng.random() < 0.04:
        # an abbreviation table longer than 127 octets: abbreviation indices
        # are unsigned octets (0..255)
        ntypes = rng.choice([30, 40, 50, 60])
        t0 = -1200000000 + rng.randrange(0, 86400 * 300)
        base = _off(rng, -11 * 3600, -3 * 3600)
        ltypes = [[base + 900 * (i % 9), i % 4 == 3, "A%02d" % i]
                  for i in range(ntypes)]
        order = list(range(1, ntypes))
        rng.shuffle(order)
        order = order[:45]
        if ntypes - 1 not in order:
            order[-1] = ntypes - 1
        return dict(kind="synthetic", mode="long_abbr_table",
                    trans=[t0 + 30 * 86400 * k for k in range(len(order))],
                    idx=order, types=ltypes, isstd=[], isgmt=[], leaps=[],
                    version=rng.choice([1, 2]))
    if rng.random() < 0.04:
        # the format's own limits: up to 256 local time types, type indices
        # that do not fit a signed byte; every transition switches to the
        # next type, half an hour apart in offset, a week apart in time
        ntypes = rng.choice([127, 128, 129, 200, 255, 256])
        t0 = -1500000000 + rng.randrange(0, 86400 * 300)
        base = _off(rng, -11 * 3600, -3 * 3600)
        mtypes = [[base + 60 * i, i % 5 == 3, ["AAA", "BBB", "CCCC"][i % 3]]
                  for i in range(ntypes)]
        order = list(range(1, ntypes))
        rng.shuffle(order)
        order = order[:59]
        if ntypes - 1 not in order:
            order[-1] = ntypes - 1
        return dict(kind="synthetic", mode="many_types",
                    trans=[t0 + 7 * 86400 * k for k in range(len(order))],
                    idx=order, types=mtypes, isstd=[], isgmt=[], leaps=[],
                    version=rng.choice([1, 2]))
    t = rng.choice([-1500000000, -600000000, 0, 500000000, 1200000000]) + \
        rng.randrange(0, 86400 * 300)
    types = []
    trans = []
    idx = []

    def typ(off, isdst, abbr):
        tt = (off, bool(isdst), abbr)
        if tt not in types:
            if len(types) >= DP.pick(8, 14):
                return rng.randrange(len(types))
            types.append(tt)
        return types.index(tt)

    def step(lo=30, hi=240):
        return rng.randrange(lo, hi) * 86400 + rng.choice([0, 3600, 7200,
                                                           1800])

    std = _off(rng, -11 * 3600, 12 * 3600)
    sav = rng.choice([3600, 3600, 1800, 7200])
    n = rng.choice(DP.pick([1, 2, 3, 6, 10, 20, 40], [6, 20, 40, 80, 120]))
    if n > 40:
        # keep the last transition inside the 32-bit range of the v1 block
        t = rng.choice([-1500000000, -600000000]) + \
            rng.randrange(0, 86400 * 300)
    if mode == "no_transitions":
        typ(std, False, "STD")
        if rng.random() < 0.5:
            typ(std + sav, True, "DST")
        n = 0
    elif mode == "one_type":
        typ(std, False, "ONE")
        for i in range(rng.choice([1, 2, 5])):
            trans.append(t)
            idx.append(0)
            t += step()
        n = 0
    if mode in ("plain", "abbr_change", "dst_dst", "negative_dst",
                "base_change"):
        lmt = std + rng.choice([-1521, 754, -1800, 0, 900])
        typ(lmt, False, "LMT")
        s = typ(std, False, "AST")
        trans.append(t)
        idx.append(s)
        t += step()
        cur_std = std
        cur_abbr = "AST"
        for i in range(n):
            r = rng.random()
            if mode == "abbr_change" and r < 0.3:
                cur_abbr = rng.choice(["BST", "GMT", "XYZT", "+03"])
                trans.append(t)
                idx.append(typ(cur_std, False, cur_abbr))
                t += step()
                continue
            if mode == "base_change" and r < 0.3:
                # daylight time ends and the standard offset changes at once
                trans.append(t)
                idx.append(typ(cur_std + sav, True, "ADT"))
                t += step()
                cur_std += rng.choice([-3600, 3600, 1800, -1800, 7200])
                trans.append(t)
                idx.append(typ(cur_std, False, cur_abbr))
                t += step()
                continue
            if mode == "negative_dst" and r < 0.5:
                # "winter time" marked as daylight with a lower offset
                trans.append(t)
                idx.append(typ(cur_std - sav, True, "WXST"))
                t += step()
                trans.append(t)
                idx.append(typ(cur_std, False, cur_abbr))
                t += step()
                continue
            if mode == "dst_dst" and r < 0.4:
                # daylight -> double daylight -> daylight -> standard
                trans.append(t)
                idx.append(typ(cur_std + sav, True, "ADT"))
                t += step(20, 60)
                trans.append(t)
                idx.append(typ(cur_std + 2 * sav, True, "ADDT"))
                t += step(20, 60)
                if rng.random() < 0.5:
                    trans.append(t)
                    idx.append(typ(cur_std + sav, True, "ADT"))
                    t += step(20, 60)
                trans.append(t)
                idx.append(typ(cur_std, False, cur_abbr))
                t += step()
                continue
            trans.append(t)
            idx.append(typ(cur_std + sav, True, "ADT"))
            t += step()
            trans.append(t)
            idx.append(typ(cur_std, False, cur_abbr))
            t += step()
    elif mode == "big_jump":
        typ(std, False, "AST")
        for i in range(n):
            trans.append(t)
            idx.append(typ(_off(rng), rng.random() < 0.3,
                           rng.choice(ABBRS)))
            t += rng.choice([3600, 3 * 3600, 6 * 3600, 86400])
    elif mode == "random":
        for i in range(rng.randrange(1, 6)):
            typ(_off(rng), rng.random() < 0.4, rng.choice(ABBRS))
        for i in range(n):
            trans.append(t)
            idx.append(rng.randrange(len(types)))
            t += rng.choice([86400, 7 * 86400, 90 * 86400, 180 * 86400,
                             6 * 3600])
    trans = trans[:60]
    idx = idx[:60]
    ind = rng.choice(["none", "all0", "mixed", "all"])
    if ind == "none":
        isstd, isgmt = [], []
    elif ind == "all0":
        isstd, isgmt = [0] * len(types), [0] * len(types)
    elif ind == "all":
        isstd, isgmt = [1] * len(types), [1] * len(types)
    else:
        isstd = [rng.randrange(2) for _ in types]
        isgmt = [rng.randrange(2) for _ in types]
    leaps = []
    if rng.random() < 0.15:
        leaps = [(78796800 + i * 31536000, i + 1) for i in
                 range(rng.randrange(1, 4))]
    if len(types) > 1 and rng.random() < 0.3:
        # the order of the type table is the writer's business: e.g. a
        # daylight type may come first, with the first STANDARD type (the one
        # in force before the first transition) somewhere behind it
        perm = list(range(len(types)))
        rng.shuffle(perm)
        types = [types[p] for p in perm]
        idx = [perm.index(i) for i in idx]
        if isstd:
            isstd = [isstd[p] for p in perm]
            isgmt = [isgmt[p] for p in perm]
        mode += "+perm"
    return dict(kind="synthetic", mode=mode, trans=trans, idx=idx,
                types=[list(x) for x in types], isstd=isstd, isgmt=isgmt,
                leaps=[list(x) for x in leaps],
                version=rng.choice([1, 2, 2, 3, 4]))


LOADS = ["gettz_name", "gettz_second", "gettz_space", "gettz_colon",
         "gettz_abs", "tzfile_path", "tzfile_stream", "tzfile_stream_noname",
         "tzfile_stream_chunked", "archive", "archive_link", "archive_hardlink",
         "bundle", "gettz_bundle", "sibling", "sibling", "gettz_env",
         "gettz_env_colon", "gettz_localtime_abs", "gettz_localtime_rel",
         "gettz_localtime_colon", "tzfile_stream_forward_only",
         "tzfile_stream_read_only", "gettz_abs_blank", "tzfile_path_blank",
         "tzfile_stream_offset", "gettz_blank_later"]


def gen_loads(rng, n):
    loads = []
    for _ in range(n):
        r = rng.random()
        if r < 0.8 or not loads:
            loads.append([rng.choice(LOADS)])
        elif r < 0.86:
            loads.append(["pickle", rng.randrange(len(loads)),
                          rng.choice([0, 1, 2, 3, 4, 5])])
        elif r < 0.9:
            # pickled, then the file it was loaded from is replaced by another
            # zone (or removed) before the pickle is read back
            loads.append(["pickle_moved", rng.randrange(len(loads)),
                          rng.choice([2, 3, 4, 5]),
                          rng.choice(["replace", "remove"])])
        elif r < 0.94:
            # the file is replaced by ANOTHER zone of the same length (with
            # or without a changed modification time) between two loads by
            # name: the second load must decode the bytes that are there now
            loads.append(["reload_replaced",
                          rng.choice(["tzfile_path", "nocache_abs",
                                      "nocache_name", "after_clear"]),
                          rng.choice(["same_stamp", "same_stamp",
                                      "new_stamp"])])
        else:
            loads.append([rng.choice(["copy", "deepcopy"]),
                          rng.randrange(len(loads))])
    return loads


def generate(cls, rng):
    if cls == "threads":
        zone = dict(kind="system", pick=rng.getrandbits(30)) \
            if rng.random() < 0.3 else gen_zone(rng)
        nthreads = rng.choice([2, 2, 3])
        threads = [[["obs", rng.randrange(0, 400)]
                    for _ in range(rng.randrange(2, 8))]
                   for _ in range(nthreads)]
        kind = rng.choice(["random", "random", "pb", "pct", "pbx", "pbx"])
        if kind == "random":
            strat = dict(kind="random", p=rng.choice([0.02, 0.1, 0.3, 1.0]))
        elif kind == "pbx":
            strat = dict(kind="pbx", k=rng.choice([1, 1, 2, 3]))
        elif kind == "pb":
            strat = dict(kind="pb", k=rng.choice([1, 2, 3]),
                         horizon=rng.choice([100, 400, 1500]))
        else:
            strat = dict(kind="pct", d=rng.choice([2, 3, 4]),
                         horizon=rng.choice([100, 400, 1500]))
        return dict(zone=zone, threads=threads,
                    probe_seed=rng.getrandbits(30),
                    sched=dict(strategy=strat, seed=rng.getrandbits(32)))
    if cls == "system":
        return dict(zone=dict(kind="system", pick=None),
                    ops=[[rng.choice(LOADS[:6])], ["tzfile_stream"],
                         ["archive"], ["archive_link"]],
                    probe_seed=rng.getrandbits(30), all_transitions=True)
    if rng.random() < 0.3:
        zone = dict(kind="system", pick=rng.getrandbits(30))
    else:
        zone = gen_zone(rng)
    from dsim import depth as DP
    sc = dict(zone=zone, ops=gen_loads(rng, rng.randrange(2, DP.pick(9, 20))),
              probe_seed=rng.getrandbits(30),
              archive_order=rng.choice(["links_last", "links_first",
                                        "sorted", "reversed"]))
    if cls == "faults" and rng.random() < 0.2:
        # focused: a stream that delivers every field whole except the
        # abbreviation table, and data without indicator bytes after it
        z = gen_zone(rng)
        while len(z["types"]) < 5 and len(z["types"]) >= 1:
            z["types"].append([_off(rng), rng.random() < 0.3,
                               rng.choice(["LONGABBR", "ABCDEFGH", "+103045",
                                           "-093015", "XYZWVUT"]) +
                               str(len(z["types"]))[:0]])
        names = ["LONGABBR", "ABCDEFGH", "+103045", "-093015", "XYZWVUT",
                 "QRSTUVW", "MNOPQRS", "HIJKLMN"]
        z["types"] = [[t[0], t[1], names[i % len(names)]]
                      for i, t in enumerate(z["types"])]
        z["trans"] = z["trans"][:5]
        z["idx"] = [i % len(z["types"]) for i in range(len(z["trans"]))]
        z["isstd"] = []
        z["isgmt"] = []
        z["leaps"] = []
        sc["zone"] = z
        sc["ops"] = [[rng.choice(["tzfile_stream", "tzfile_stream_noname"])]]
        sc["faults"] = [dict(kind="chunked", m="fit", where="stream")]
        return sc
    if cls == "faults":
        faults = []
        for _ in range(rng.choice([1, 1, 2])):
            kind = rng.choice(["enoent", "eacces", "vanish_after_stat",
                               "eio_at", "truncate_at", "garbage", "chunked",
                               "unseekable"])
            f = dict(kind=kind, where=rng.choice(["zi1", "zi1", "zi2",
                                                  "stream", "space"]))
            if kind == "eio_at":
                f["k"] = rng.randrange(1, 12)
            if kind == "truncate_at":
                f["frac"] = rng.random()
                f["edge"] = rng.choice([None, None, "hdr", "trans", "types",
                                        "abbr", "tail"])
            if kind == "chunked":
                f["m"] = rng.choice([1, 3, 5, 16, 24, 30, 64, 200, "fit",
                                     "fit"])
            faults.append(f)
        sc["faults"] = faults
    return sc


# ---------------------------------------------------------------------------
# execution
# ---------------------------------------------------------------------------

_SYSTEM = None


def system_files():
    global _SYSTEM
    if _SYSTEM is None:
        out = []
        root = "/usr/share/zoneinfo"
        if os.path.isdir(root):
            for d, dirs, files in os.walk(root):
                dirs.sort()
                if "/right" in d or "/posix" in d:
                    continue
                for f in sorted(files):
                    p = os.path.join(d, f)
                    try:
                        with open(p, "rb") as fh:
                            if fh.read(4) == b"TZif":
                                out.append(p)
                    except OSError:
                        pass
        _SYSTEM = out
    return _SYSTEM


def zone_data(zone, ctx):
    if zone["kind"] == "system":
        files = system_files()
        if files:
            p = files[zone["pick"] % len(files)]
            with open(p, "rb") as fh:
                ctx.probe("system_zone")
                return fh.read(), p[len("/usr/share/zoneinfo/"):]
        import random
        zone = gen_zone(random.Random(zone["pick"]))
    data = tzif.make_tzif(zone["trans"], zone["idx"],
                          [tuple(t) for t in zone["types"]],
                          zone.get("isstd"), zone.get("isgmt"),
                          [tuple(x) for x in zone.get("leaps", ())],
                          version=zone.get("version", 1))
    return data, "synthetic:" + zone.get("mode", "?")


def classify_shapes(ref, ctx):
    if not ref.trans:
        ctx.probe("shape.no_transitions")
    if len(ref.types) == 1:
        ctx.probe("shape.one_type")
    prev = ref.first_standard() if ref.types else None
    for j, t in enumerate(ref.trans):
        cur = ref.types[ref.idx[j]]
        if prev is not None:
            if cur[0] == prev[0] and cur != prev:
                ctx.probe("shape.same_offset")
            if cur[1] and prev[1] and cur[0] != prev[0]:
                ctx.probe("shape.dst_dst")
            if cur[1] and not prev[1] and cur[0] < prev[0]:
                ctx.probe("shape.negative_dst")
            if j + 1 < len(ref.trans) and \
                    abs(cur[0] - prev[0]) > ref.trans[j + 1] - t:
                ctx.probe("shape.big_jump")
        prev = cur
    # base change: standard offset differs across a daylight period
    last_std = None
    for j in range(len(ref.trans)):
        cur = ref.types[ref.idx[j]]
        if not cur[1]:
            if last_std is not None and last_std != cur[0] and j > 0 and \
                    ref.types[ref.idx[j - 1]][1]:
                ctx.probe("shape.base_change")
            last_std = cur[0]


def probe_instants(ref, seed, everything=False):
    import random
    rng = random.Random(seed)
    tr = ref.trans
    out = []
    if not tr:
        return [0, 946684800, -1000000000, 2000000000]
    js = list(range(len(tr)))
    if len(js) > 24 and not everything:
        js = sorted(rng.sample(js, 24))
    for j in js:
        for d in (-7200, -3600, -1800, -1, 0, 1, 1800, 3600, 7200):
            out.append(tr[j] + d)
        # instants are not whole seconds: the last half second (and the
        # last microsecond) before a transition still belong to the old type
        out.append(tr[j] - 0.5)
        if j % 3 == 0:
            out.append(tr[j] - 0.000001)
            out.append(tr[j] + 0.25)
        if j + 1 < len(tr):
            out.append((tr[j] + tr[j + 1]) // 2)
    out.append(tr[0] - 86400)
    out.append(tr[0] - 86400 * 400)
    out.append(tr[-1] + 86400)
    out.append(tr[-1] + 86400 * 200)
    lo, hi = -2 ** 31 + 86400 * 2, 2 ** 31 - 86400 * 2
    lo = max(lo, int((datetime.datetime(1, 1, 3) - ZW.EPOCH).total_seconds()))
    return sorted(set(t for t in out if lo <= t <= hi))


def wall_preimages(ref, wall):
    """UTC instants t (before the last transition) with t + off(t) == wall,
    as (interval index) list; -1 is 'before the first transition'."""
    tr = ref.trans
    res = []
    fs = ref.first_standard()
    # interval -1: (-inf, tr[0])
    t = wall - fs[0]
    if t < tr[0]:
        res.append(-1)
    for j in range(len(tr) - 1):
        off = ref.types[ref.idx[j]][0]
        t = wall - off
        if tr[j] <= t < tr[j + 1]:
            res.append(j)
    # interval after the last transition: dateutil picks its own type there;
    # its wall times may collide as well, so they count conservatively
    off = ref.types[ref.idx[-1]][0]
    if wall - off >= tr[-1] - 86400:
        res.append(len(tr) - 1)
    return res


class Loader(object):
    def __init__(self, ctx, world, data, name, archive_order="links_last"):
        from dateutil import tz
        import dateutil.zoneinfo as zi
        self.tz = tz
        self.zi = zi
        self.ctx = ctx
        self.world = world
        self.data = data
        self.name = name
        fs = world.fs
        self.p1 = ZW.ZI1 + "/Area/Zone"
        self.p2 = ZW.ZI2 + "/Area/Second"
        self.psp = ZW.ZI1 + "/Area/Two_Words"
        fs.add_file(self.p1, data)
        fs.add_file(self.p2, data)
        fs.add_file(self.psp, data)
        # a different zone under the same name in the second path must never
        # win over the first
        fs.add_file(ZW.ZI2 + "/Area/Zone",
                    ZW.zone_bytes(ZW.simple_zone(33)))
        # a root-level member with the same base name as the zone, other
        # data, and a hard link inside the directory pointing at the
        # ROOT-level one (a hard link's target is a full archive name)
        self.root_twin = ZW.zone_bytes(ZW.simple_zone(11))
        self.archive = ZW.make_archive(
            {"Area/Zone": data, "Zone": self.root_twin,
             "Other/Thing": ZW.zone_bytes(ZW.simple_zone(7))},
            links=[("Area/Link", "Area/Zone", "sym"),
                   ("Area/Hard", "Area/Zone", "hard"),
                   ("Area/ToRoot", "Zone", "hard")],
            # METADATA is optional in an archive
            metadata=b'{"tzversion": "sim"}'
            if (len(data) + len(name)) % 3 else None, order=archive_order,
            # in some archives the zone is listed twice: an older version
            # first, the current one appended later
            stale={"Area/Zone": ZW.zone_bytes(ZW.simple_zone(13))}
            if len(data) % 4 == 1 else None)
        if len(data) % 4 == 1 and archive_order == "links_last":
            ctx.probe("archive_member_listed_twice")
        if archive_order != "links_last":
            ctx.probe("archive_order." + archive_order)
        world.bundle = ZW.make_archive({"Bundle/Zone": data})
        self.zif = None
        self.ctx_fault_class = False
        self.stream_fault = None
        ref = tzif.Ref(data)
        sib_types = [(off + (0 if isdst else 3600), isdst, abbr)
                     for (off, isdst, abbr) in ref.types]
        self.sibling = tzif.make_tzif(ref.trans, ref.idx, sib_types,
                                      ref.isstd, ref.isgmt)
        # another zone in exactly as many bytes as this one (bytes after the
        # version-1 block are not part of what dateutil decodes)
        alt = tzif.make_tzif(ref.trans, ref.idx,
                             [(off + 1800, isdst, abbr)
                              for (off, isdst, abbr) in ref.types],
                             ref.isstd, ref.isgmt)
        self.alt = alt + b"\0" * (len(data) - len(alt)) \
            if len(alt) <= len(data) else None

    def zoneinfofile(self):
        if self.zif is None:
            self.zif = self.zi.ZoneInfoFile(io.BytesIO(self.archive))
        return self.zif

    def load(self, op):
        """Returns (zone, path-kind). May raise."""
        tz = self.tz
        k = op[0]
        if k == "gettz_name":
            return tz.gettz("Area/Zone")
        if k == "gettz_second":
            return tz.gettz("Area/Second")
        if k == "gettz_space":
            return tz.gettz("Area/Two Words")
        if k == "gettz_colon":
            return tz.gettz(":Area/Zone")
        if k == "gettz_blank_later":
            # a name with a literal blank that exists, spelled so, only in
            # the SECOND search directory -- next to an underscore namesake
            # with other data (each directory is tried with the literal
            # spelling first)
            self.world.fs.add_file(ZW.ZI2 + "/Area/Blank Name", self.data)
            self.world.fs.add_file(ZW.ZI2 + "/Area/Blank_Name",
                                   ZW.zone_bytes(ZW.simple_zone(29)))
            return tz.gettz("Area/Blank Name")
        if k == "gettz_abs":
            return tz.gettz(self.p1)
        if k in ("gettz_env", "gettz_env_colon"):
            # gettz() without a name follows the TZ environment variable
            self.world.set_tz(":Area/Zone" if k.endswith("colon")
                              else "Area/Zone")
            try:
                return tz.gettz()
            finally:
                self.world.set_tz(None)
        if k == "tzfile_stream_offset":
            # the zone's bytes start somewhere inside a bigger stream (after
            # an index, after another zone): decoding starts at the stream's
            # position
            prefix = ZW.zone_bytes(ZW.simple_zone(5)) + b"index\0"
            st = io.BytesIO(prefix + self.data)
            st.seek(len(prefix))
            return tz.tzfile(st, filename="embedded")
        if k in ("gettz_abs_blank", "tzfile_path_blank"):
            # an absolute path with a blank in a directory name, next to a
            # twin directory spelled with an underscore that holds OTHER data
            # (the blank-to-underscore rewrite is for zone NAMES only)
            p = "/sim/my zones/Area/Zone"
            self.world.fs.add_file(p, self.data)
            self.world.fs.add_file("/sim/my_zones/Area/Zone",
                                   ZW.zone_bytes(ZW.simple_zone(23)))
            return tz.gettz(p) if k == "gettz_abs_blank" else tz.tzfile(p)
        if k.startswith("gettz_localtime"):
            # gettz() with no name and no (or an empty) TZ setting reads the
            # system's local-time file: TZFILES, absolute or under TZPATHS
            path = "/sim/etc/localtime" if k.endswith("abs") \
                else ZW.ZI2 + "/localtime"
            self.world.fs.add_file(path, self.data)
            self.world.set_tz(":" if k.endswith("colon") else None)
            try:
                return tz.gettz()
            finally:
                del self.world.fs.files[path]
                self.world.set_tz(None)
        if k == "tzfile_path":
            return tz.tzfile(self.p1)
        if k == "tzfile_stream":
            return tz.tzfile(SimFile(self.data, name="stream-zone",
                                     fault=self.stream_fault,
                                     on_fault=self.ctx.fault))
        if k == "tzfile_stream_noname":
            return tz.tzfile(SimFile(self.data, with_name=False,
                                     fault=self.stream_fault,
                                     on_fault=self.ctx.fault), filename="x")
        if k in ("tzfile_stream_forward_only", "tzfile_stream_read_only"):
            # a stream that can only be read forward (pipe, socket, HTTP
            # body): enough for any data without leap-second records, which
            # is the only place where the reader wants to seek
            if tzif.Ref(self.data).leaps:
                self.ctx.probe("forward_only_skipped_leap_records")
                return "skip"
            self.ctx.probe("load.forward_only_stream")
            if k.endswith("read_only"):
                return tz.tzfile(_ReadOnly(self.data))
            return tz.tzfile(SimFile(self.data, with_name=False,
                                     fault=dict(kind="unseekable"),
                                     on_fault=self.ctx.fault), filename="fwd")
        if k == "tzfile_stream_chunked":
            # a buffered reader over a raw stream that delivers short reads:
            # legal, and BufferedReader re-assembles exact reads
            raw = _Raw(self.data, 7)
            return tz.tzfile(io.BufferedReader(raw, buffer_size=16))
        if k == "archive":
            z = self.zoneinfofile().get("Area/Zone")
            if z is not None and not self.ctx_fault_class:
                # ANOTHER archive holding other data under the same member
                # name: the two zones are not the same zone
                other = self.zi.ZoneInfoFile(io.BytesIO(ZW.make_archive(
                    {"Area/Zone": self.sibling}))).get("Area/Zone")
                self.ctx.probe("archive_namesake_in_another_archive")
                self.ctx.checks += 1
                same = tz.tzfile(io.BytesIO(self.data)) == \
                    tz.tzfile(io.BytesIO(self.sibling))
                if other is not None and not same and \
                        (z == other or other == z):
                    self.ctx.violation(
                        "C06.equal_to_other_data",
                        dict(zone=self.name, note="zones of two archives "
                             "with the same member name and different data "
                             "compare equal"))
            return z
        if k == "archive_link":
            return self.zoneinfofile().get("Area/Link")
        if k == "archive_hardlink":
            return self.zoneinfofile().get("Area/Hard")
        if k == "sibling":
            # a DIFFERENT zone that shares type entries with this one (its
            # standard types are one hour further east, its daylight types
            # are the same): loading it must not disturb zones already loaded
            self.ctx.probe("load.sibling")
            tz.tzfile(io.BytesIO(self.sibling))
            return "sibling"
        if k == "bundle":
            return self.zi.get_zonefile_instance().get("Bundle/Zone")
        if k == "gettz_bundle":
            return tz.gettz("Bundle/Zone")
        raise ValueError(op)


class _ReadOnly(object):
    """Duck-typed binary stream: read(n) and nothing else."""

    def __init__(self, data):
        self._b = io.BytesIO(data)

    def read(self, n=-1):
        return self._b.read(n)


class _Raw(io.RawIOBase):
    def __init__(self, data, m):
        self._b = io.BytesIO(data)
        self._m = m

    def readable(self):
        return True

    def seekable(self):
        return True

    def seek(self, off, whence=0):
        return self._b.seek(off, whence)

    def tell(self):
        return self._b.tell()

    def readinto(self, buf):
        d = self._b.read(min(len(buf), self._m))
        buf[:len(d)] = d
        return len(d)


# load ops whose zone was read from a path of the simulated file system
PATH_OF = {"gettz_name": "p1", "gettz_colon": "p1", "gettz_abs": "p1",
           "gettz_env": "p1", "gettz_env_colon": "p1",
           "tzfile_path": "p1", "gettz_second": "p2", "gettz_space": "psp"}

ALLOWED_LOAD_ERRORS = (OSError, ValueError, struct.error, IndexError,
                       EOFError)


def execute(cls, scenario, ctx):
    import warnings
    warnings.simplefilter("ignore")
    world = ZW.World(ctx)
    zspec = scenario["zone"]
    if zspec["kind"] == "system" and zspec.get("pick") is None:
        zspec = dict(zspec, pick=scenario.get("_index", 0))
    data, label = zone_data(zspec, ctx)
    ref = tzif.Ref(data)
    classify_shapes(ref, ctx)
    ctx.event("zone", label, len(ref.trans), len(ref.types))
    L = Loader(ctx, world, data, label,
               scenario.get("archive_order", "links_last"))
    instants = probe_instants(ref, scenario["probe_seed"],
                              scenario.get("all_transitions"))
    fault_class = cls == "faults"
    L.ctx_fault_class = fault_class
    if cls == "system":
        ctx.count("system_files_total", 0)
    armed = []
    if fault_class:
        for f in scenario["faults"]:
            f = dict(f)
            if f["kind"] == "truncate_at":
                f["n"] = _trunc_pos(ref, data, f)
            if f["kind"] == "chunked" and f["m"] == "fit":
                # every read fits except (possibly) the abbreviation table
                f["m"] = max(24, 4 * len(ref.trans), 6)
            where = f.pop("where")
            if where == "stream":
                L.stream_fault = f
            else:
                path = dict(zi1=L.p1, zi2=L.p2, space=L.psp)[where]
                world.fs.arm(path, f)
            armed.append((where, f))
        ctx.event("faults", armed)
    loaded = []          # (op, zone or None)
    first_obs = [None]   # answers of the first loaded zone, taken at once
    if cls == "threads":
        return execute_threads(scenario, ctx, world, L, data, ref, instants,
                               label)
    K.set_budget(6000000)
    try:
        for op in scenario["ops"]:
            z = None
            fired_before = sum(ctx.faults.values())
            try:
                if op[0] == "pickle_moved":
                    if fault_class or op[1] >= len(loaded) or \
                            loaded[op[1]][1] is None or \
                            loaded[op[1]][0][0] not in PATH_OF:
                        loaded.append((op, None))
                        continue
                    src_op, src = loaded[op[1]]
                    path = getattr(L, PATH_OF[src_op[0]])
                    blob = pickle.dumps(src, op[2])
                    saved = world.fs.files[path]
                    if op[3] == "replace":
                        world.fs.replace_file(path, ZW.zone_bytes(
                            ZW.simple_zone(21)))
                    else:
                        del world.fs.files[path]
                    try:
                        z = pickle.loads(blob)
                    finally:
                        world.fs.replace_file(path, saved)
                    ctx.probe("load.pickle_after_file_changed")
                elif op[0] == "reload_replaced":
                    loaded.append((op, None))
                    if fault_class or L.alt is None:
                        continue
                    reload_replaced(ctx, world, L, op, instants, label)
                    continue
                elif op[0] in ("pickle", "copy", "deepcopy"):
                    if op[1] >= len(loaded) or loaded[op[1]][1] is None:
                        loaded.append((op, None))
                        continue
                    src_op, src = loaded[op[1]]
                    if src_op[0] in ("archive", "archive_link",
                                     "archive_hardlink") and \
                            op[0] == "pickle":
                        # pickles by name through the *bundled* archive: not
                        # this archive (DESIGN 5a); not asserted
                        loaded.append((op, None))
                        continue
                    if fault_class and op[0] == "pickle":
                        loaded.append((op, None))
                        continue
                    if op[0] == "pickle":
                        z = pickle.loads(pickle.dumps(src, op[2]))
                    elif op[0] == "copy":
                        z = _copy.copy(src)
                    else:
                        z = _copy.deepcopy(src)
                    ctx.probe("load.pickle" if op[0] == "pickle"
                              else "load.copy")
                else:
                    z = L.load(op)
                    if z is not None:
                        ctx.probe("load." + {
                            "tzfile_stream_noname": "tzfile_stream",
                            "tzfile_stream_chunked": "tzfile_stream",
                            "archive_hardlink": "archive_link",
                            "gettz_env_colon": "gettz_env",
                            "gettz_localtime_abs": "gettz_localtime",
                            "gettz_localtime_rel": "gettz_localtime",
                            "gettz_localtime_colon": "gettz_localtime",
                            "gettz_bundle": "bundle"}.get(op[0], op[0]))
            except (Deadlock, BudgetExceeded):
                raise
            except Exception as e:
                fired = sum(ctx.faults.values()) > fired_before
                ctx.event("load", op, "raised", type(e).__name__)
                if not fault_class or not isinstance(e, ALLOWED_LOAD_ERRORS):
                    ctx.violation("C06.load_raises",
                                  dict(op=op, zone=label,
                                       exc=type(e).__name__,
                                       msg=str(e)[:200]))
                loaded.append((op, None))
                _handles(ctx, world, op)
                continue
            _handles(ctx, world, op)
            if isinstance(z, str) and z in ("sibling", "skip"):
                ctx.event("load", op, z)
                loaded.append((op, None))
                continue
            if z is None:
                ctx.event("load", op, None)
                if not fault_class:
                    ctx.violation("C06.load_none", dict(op=op, zone=label))
                elif op[0] in ("gettz_name", "gettz_colon", "gettz_env",
                               "gettz_env_colon"):
                    # only the first candidate file is ever damaged: an
                    # intact file of that name stands in the second search
                    # directory, and the search goes on past a file that
                    # cannot be read
                    ctx.violation("C06.fault_lost_intact_candidate",
                                  dict(op=op, zone=label,
                                       faults=[f for _, f in armed]))
                loaded.append((op, None))
                continue
            ctx.event("load", op, "ok")
            loaded.append((op, z))
            if not fault_class and first_obs[0] is None:
                with K.mute():
                    try:
                        first_obs[0] = (z, [ZW.observe(z, ts)
                                            for ts in instants])
                    except Exception:
                        first_obs[0] = (z, None)
            if fault_class:
                judge_fault_result(ctx, op, z, ref, instants, label, armed,
                                   data)
        zones = [(op, z) for op, z in loaded if z is not None]
        if not fault_class:
            judge(ctx, zones, ref, instants, label)
            # history independence: whatever was loaded in between, the
            # first zone still answers what it answered when it was loaded
            if first_obs[0] is not None and first_obs[0][1] is not None:
                z0, obs0 = first_obs[0]
                with K.mute():
                    for ts, was in zip(instants, obs0):
                        now = ZW.observe(z0, ts)
                        ctx.checks += 1
                        if now != was:
                            ctx.violation(
                                "C06.answers_changed_after_other_loads",
                                dict(zone=label, ts=ts, first=was, now=now,
                                     loads=[o[0] for o, _z in loaded]))
            # (3) archive links are the target's own object
            if L.zif is not None:
                a = L.zif.get("Area/Zone")
                if L.zif.get("Area/Link") is not a or \
                        L.zif.get("Area/Hard") is not a:
                    ctx.violation("C06.link_not_target", dict(zone=label))
                r = L.zif.get("Zone")
                if L.zif.get("Area/ToRoot") is not r or r is None or \
                        not (r == L.tz.tzfile(io.BytesIO(L.root_twin))):
                    ctx.violation("C06.link_not_target",
                                  dict(zone=label, link="Area/ToRoot",
                                       target="Zone"))
            kinds = set(op[0] for op, _ in zones)
            if len(kinds) >= 2 and ctx.checks:
                ctx.nontrivial = True
        else:
            if sum(v for k, v in ctx.faults.items()):
                ctx.nontrivial = True
    except BudgetExceeded as e:
        ctx.violation("liveness.budget", dict(msg=str(e), zone=label))
    finally:
        K.set_budget(None)


def reload_replaced(ctx, world, L, op, instants, label):
    """Load by name, replace the file by another zone of the same length
    (same or new stat stamp), load by name again: the second load must be
    the zone a stream load of the new bytes gives."""
    tz = L.tz
    _, via, stamp = op

    def by_name():
        if via == "tzfile_path":
            return tz.tzfile(L.p1)
        if via == "nocache_abs":
            return tz.gettz.nocache(L.p1)
        if via == "nocache_name":
            return tz.gettz.nocache("Area/Zone")
        tz.gettz.cache_clear()
        return tz.gettz("Area/Zone")

    before = by_name()
    saved = world.fs.files[L.p1]
    world.fs.replace_file(L.p1, L.alt, same_stamp=(stamp == "same_stamp"))
    ctx.fault("file_replaced." + stamp)
    try:
        after = by_name()
    finally:
        world.fs.replace_file(L.p1, saved)
    if via == "after_clear":
        tz.gettz.cache_clear()
    with K.mute():
        want = tz.tzfile(io.BytesIO(L.alt))
        ctx.checks += 1
        ctx.event("reload_replaced", via, stamp)
        bad = None
        if not isinstance(after, tz.tzfile):
            bad = dict(got=repr(after))
        elif not (after == want and want == after):
            bad = dict(got="unequal to a stream load of the new bytes",
                       equal_to_old=bool(after == before))
        else:
            for ts in instants[:80]:
                g, w = ZW.observe(after, ts), ZW.observe(want, ts)
                if g != w:
                    bad = dict(ts=ts, got=g, want=w)
                    break
        if bad is not None:
            bad.update(via=via, stamp=stamp, zone=label)
            ctx.violation("C06.stale_after_file_replaced", bad)


def execute_threads(scenario, ctx, world, L, data, ref, instants, label):
    from dsim.kernel import Scheduler
    from dateutil import tz
    zone = tz.tzfile(io.BytesIO(data))
    st = scenario["sched"]
    sched = Scheduler(st["strategy"], st.get("seed", 0), tape=st.get("tape"),
                      max_steps=400000)
    got = {}
    for ti, prog in enumerate(scenario["threads"]):
        def body(ti=ti, prog=prog):
            for j, op in enumerate(prog):
                ts = instants[op[1] % len(instants)]
                try:
                    g = ZW.observe(zone, ts)
                except (Deadlock, BudgetExceeded):
                    raise
                except Exception as e:
                    from dsim.kernel import SimBaseException
                    if isinstance(e, SimBaseException):
                        raise
                    g = ("raised", type(e).__name__, str(e)[:80])
                with K.mute():
                    got[(ti, j)] = (ts, g)
                    ctx.event("T%d" % ti, ts, g)
        sched.spawn(body, "T%d" % ti)
    try:
        sched.run()
    finally:
        ctx.sched_summary = sched.summary()
    ctx.fault("preemption", sched.preemptions)
    fresh = tz.tzfile(io.BytesIO(data))
    for (ti, j), (ts, g) in sorted(got.items()):
        want = ZW.observe(fresh, ts)
        ctx.checks += 1
        if tuple(g) != tuple(want):
            ctx.violation("C06.thread_answer_differs",
                          dict(zone=label, ts=ts, concurrent=list(g),
                               sequential=list(want), task="T%d" % ti))
    if sched.switches:
        ctx.nontrivial = True


def _handles(ctx, world, op):
    if world.fs.open_handles != 0:
        ctx.violation("C06.handle_leak",
                      dict(op=op, open_handles=world.fs.open_handles))
        world.fs.open_handles = 0


def _trunc_pos(ref, data, f):
    """Byte position of a truncation fault, biased to structure edges of the
    version-1 block."""
    timecnt = len(ref.trans)
    typecnt = len(ref.types)
    hdr = 44
    t_end = hdr + 4 * timecnt
    i_end = t_end + timecnt
    ty_end = i_end + 6 * typecnt
    edge = f.get("edge")
    frac = f.get("frac", 0.5)
    if edge == "hdr":
        return int(frac * hdr)
    if edge == "trans":
        return hdr + int(frac * max(1, 4 * timecnt))
    if edge == "types":
        return i_end + int(frac * max(1, 6 * typecnt))
    if edge == "abbr":
        return ty_end + int(frac * max(1, ref.v1_end - ty_end))
    if edge == "tail":
        return max(0, ref.v1_end - 1 - int(frac * 3))
    return int(frac * len(data))


def want_at(ref, ts):
    w = ref.at(ts)
    if w is None:
        return None
    return w


def judge(ctx, zones, ref, instants, label):
    """Fault-free oracle: equality across load paths at every instant, and
    agreement with the reference reader before the last transition."""
    if not zones:
        return
    with K.mute():
        first_op, first = zones[0]
        for op, z in zones[1:]:
            ctx.checks += 1
            if not (z == first and first == z) or (z != first):
                ctx.violation("C06.paths_not_equal",
                              dict(a=first_op, b=op, zone=label))
        for ts in instants:
            try:
                got0 = ZW.observe(first, ts)
            except Exception as e:
                ctx.violation("C06.query_raises",
                              dict(zone=label, ts=ts, exc=type(e).__name__,
                                   msg=str(e)[:200]))
                continue
            for op, z in zones[1:]:
                g = ZW.observe(z, ts)
                ctx.checks += 1
                if g != got0:
                    ctx.violation("C06.paths_disagree",
                                  dict(a=first_op, b=op, ts=ts, got=[got0, g],
                                       zone=label))
            want = ref.at(ts)
            if want is None:
                continue
            if not representable(ref, ts, want):
                ctx.count("skipped_unrepresentable")
                continue
            ctx.checks += 1
            ctx.count("reference_probes")
            off, isdst, abbr = want
            if got0[0] != off or got0[1] != abbr:
                ctx.violation("C06.wrong_offset_or_abbr",
                              dict(zone=label, ts=ts, got=got0,
                                   want=[off, abbr, isdst],
                                   near=_near(ref, ts),
                                   tight_spacing=tight_spacing(ref, ts)))
            elif not isdst and got0[2] != 0:
                ctx.violation("C06.dst_nonzero_in_standard",
                              dict(zone=label, ts=ts, got=got0,
                                   want=[off, abbr, isdst],
                                   near=_near(ref, ts),
                                   tight_spacing=tight_spacing(ref, ts)))


def representable(ref, ts, want):
    if not ref.trans:
        return True
    pre = wall_preimages(ref, ts + want[0])
    if len(pre) > 2:
        return False
    if len(pre) == 2 and abs(pre[0] - pre[1]) != 1:
        return False
    return True


def _near(ref, ts):
    """The transition nearest to ts as (index, utc, before-type, after-type)."""
    import bisect
    tr = ref.trans
    j = bisect.bisect_right(tr, ts) - 1
    cands = [c for c in (j, j + 1) if 0 <= c < len(tr)]
    best = min(cands, key=lambda c: abs(tr[c] - ts))
    prev = ref.types[ref.idx[best - 1]] if best > 0 else ref.first_standard()
    return dict(j=best, utc=tr[best], delta=ts - tr[best], before=list(prev),
                after=list(ref.types[ref.idx[best]]))


def judge_fault_result(ctx, op, z, ref, instants, label, armed, data):
    """Relaxed oracle: a zone that was returned despite faults must be the
    zone a fault-free load of the same bytes gives, or a documented fallback
    -- never anything else."""
    if op[0] in ("pickle", "copy", "deepcopy"):
        return
    from dateutil import tz
    with K.mute():
        ctx.checks += 1
        clean = tz.tzfile(io.BytesIO(data))
        bad = None
        if not isinstance(z, tz.tzfile):
            bad = dict(got=repr(z))
        elif not (z == clean and clean == z):
            bad = dict(got="unequal to the fault-free zone")
        else:
            for ts in instants[:60]:
                g, w = ZW.observe(z, ts), ZW.observe(clean, ts)
                if g != w:
                    bad = dict(ts=ts, got=g, want=w)
                    break
        if bad is None:
            ctx.probe("fault_survived_correct_zone")
            return
        fallback_ok = op[0] in ("gettz_name", "gettz_colon", "gettz_second",
                                "gettz_space", "gettz_env",
                                "gettz_env_colon")
        if fallback_ok:
            # the first candidate was faulted: the same name in the second
            # TZPATHS entry (a different, well-formed zone) or a later stage
            # of the documented chain may legitimately have been served
            other = tz.tzfile(io.BytesIO(ZW.zone_bytes(ZW.simple_zone(33))))
            if isinstance(z, tz.tzfile) and z == other:
                ctx.probe("fallback_second_tzpath")
                return
            if not isinstance(z, tz.tzfile) and op[0] in (
                    "gettz_second", "gettz_space"):
                # (a name that exists in one directory only: with that file
                # unreadable the later stages of the chain are all there is;
                # "Area/Zone" also exists, intact, in the second directory,
                # so for it a later stage is never right)
                ctx.probe("fallback_later_stage")
                return
        # A torn file (truncated inside the version-1 block) is not a
        # well-formed TZif stream: C06 does not say what it must decode to,
        # so a silently accepted torn file is recorded, not judged.
        for where, f in armed:
            if f["kind"] == "truncate_at" and f["n"] < ref.v1_end:
                ctx.probe("torn_file_accepted_silently")
                return
        short = any(f["kind"] == "chunked" for _, f in armed)
        bad.update(op=op, zone=label, faults=[f for _, f in armed],
                   short_abbr_table=short and _abbr_cut(ref, armed, data))
        ctx.violation("C06.fault_wrong_zone", bad)


def _abbr_cut(ref, armed, data):
    """True when a short read / truncation can land inside the abbreviation
    table while nothing that follows (indicator bytes) must be read."""
    return len(ref.isstd) == 0 and len(ref.isgmt) == 0


def simplify(cls, scenario):
    z = scenario["zone"]
    if z["kind"] == "synthetic":
        n = len(z["trans"])
        for cut in (n // 2, n - 1):
            if 0 < cut < n:
                c = _copy.deepcopy(scenario)
                c["zone"]["trans"] = z["trans"][:cut]
                c["zone"]["idx"] = z["idx"][:cut]
                yield c
        for cut in (n // 2, 1):
            if 0 < cut < n:
                c = _copy.deepcopy(scenario)
                c["zone"]["trans"] = z["trans"][cut:]
                c["zone"]["idx"] = z["idx"][cut:]
                yield c
        if z.get("leaps"):
            c = _copy.deepcopy(scenario)
            c["zone"]["leaps"] = []
            yield c
        if z.get("version", 1) != 1:
            c = _copy.deepcopy(scenario)
            c["zone"]["version"] = 1
            yield c
    if len(scenario.get("faults", ())) > 1:
        for i in range(len(scenario["faults"])):
            c = _copy.deepcopy(scenario)
            del c["faults"][i]
            yield c
