"""C15 — parse() options: default fill-in, time-zone resolution order and
fuzzy modes, under every clock value, process-TZ setting and call history.

One class: generated histories of process-TZ changes, simulated clock events
and parse() calls of three kinds: partial texts against defaults (explicit,
or read from the simulated clock), time + zone text under tzinfos / local
names / UTC designators / numeric offsets / GMT+h / unknown names / ignoretz,
and sentences with filler around one rendered date (plain / fuzzy /
fuzzy_with_tokens).
"""
import calendar
import datetime
import os
import time
import warnings

from dsim.kernel import K, Deadlock, BudgetExceeded
from dsim import simclock
from models import render as R

PROPERTY = "C15"
SRC_DIR = None
KNOWN_PREDICATES = {}
LEVEL_TEXT = (
    "Seeded search over configuration histories: process-TZ changes (which "
    "abbreviations are 'local names'), simulated clock events (default=None "
    "reads the clock; with an explicit default the clock must be irrelevant) "
    "and call history are generated, while partial date/time texts, time + "
    "zone-text forms (tzinfos mapping/callable giving tzinfo/int/TZ "
    "string/None, local names incl. the ambiguous autumn hour, UTC "
    "designators, numeric offsets with and without '(NAME)', GMT+h, unknown "
    "names, ignoretz) and filler sentences (plain/fuzzy/fuzzy_with_tokens) "
    "are parsed and compared with an executable model of the documented "
    "behaviour. A threads class runs the fill-in and fuzzy oracles while two "
    "or three threads share the module default parser under a seeded "
    "scheduler. Option semantics are input sampling inside a vetted domain "
    "and are reported as such."
    " Session 3 added: weekday+month and weekday+day partial texts, aware defaults, integer offset 0 from tzinfos, single-digit-hour offsets, gap-hour local texts, the relation 'accepted plain => same with fuzzy' on zone texts, decimal-context events.")
LEVEL_NOTE = (
    "Trusted: the harness' default-fill model (replace exactly the rendered "
    "fields; clip the day only when no day was rendered; a bare weekday "
    "moves forward) and resolution-order model; glibc as the authority on "
    "local abbreviations and on the offsets of tzlocal() (real TZ+tzset); "
    "zone texts of the form <non-UTC name>+-h are generated but not judged.")
TECHNIQUE = ("deterministic simulation of clock / process-TZ configuration "
             "histories (and seeded thread schedules on the shared default "
             "parser); executable model of default fill-in, zone "
             "resolution order and fuzzy relations as per-operation oracle")
RULE = ("one evaluation = one generated history of TZ/clock events and "
        "parses (partial texts, zone texts, fuzzy sentences); non-trivial = "
        "at least one configuration event and at least 5 judged parses "
        "covering at least two of the three kinds; distinct = distinct SHA-1 "
        "of the full event history")
EXPECTED_PROBES = ["fill.day_clipped", "fill.weekday_moved",
                   "fill.default_from_clock", "tz.tzinfos_map",
                   "tz.tzinfos_callable", "tz.local_name",
                   "tz.local_ambiguous_hour", "tz.utc_designator",
                   "tz.numeric", "tz.numeric_named", "tz.gmt_plus",
                   "tz.unknown_warned", "tz.ignoretz", "fuzzy.sentence",
                   "fuzzy.tokens", "fuzzy.plain_same"]

REAL = ['dateutil.parser, dateutil.tz (tzlocal, tzstr, tzoffset, UTC), relativedelta from /repo/src', 'real OS threads in the threads class', 'glibc tzset/localtime/mktime under the real TZ variable (authority on local abbreviations and offsets)']
STUB = ['wall clock (SimClock: default=None reads it)', 'the sequence of process-TZ settings (generated)', 'thread scheduling in the threads class']

CLASSES = {
    "config": dict(quick=20000, thorough=500000, timeout=60),
    # the same per-operation oracles while two or three threads share the
    # module default parser (fill-in and fuzzy relations; zone texts need the
    # process-wide warnings machinery and stay single-threaded)
    "threads": dict(quick=1500, thorough=30000, timeout=60),
}

# (TZ value, local abbreviations, an ambiguous wall time [y,m,d,H,M] or None)
TZ_SETTINGS = [
    [None, [], None],
    ["UTC", ["UTC"], None],
    ["EST5EDT,M3.2.0,M11.1.0", ["EST", "EDT"], [2021, 11, 7, 1, 30]],
    ["CET-1CEST,M3.5.0,M10.5.0/3", ["CET", "CEST"], [2021, 10, 31, 2, 30]],
    ["NZST-12NZDT,M9.5.0,M4.1.0/3", ["NZST", "NZDT"], [2021, 4, 4, 2, 30]],
    ["AAA11", ["AAA"], None],
    # the same abbreviations as another setting, other offsets and rules
    ["EST-10EDT,M10.1.0,M4.1.0/3", ["EST", "EDT"], [2021, 4, 4, 2, 30]],
    ["CET-2CEST-4,M3.5.0,M10.5.0/3", ["CET", "CEST"], None],
]
# a wall time [y,m,d,H,M] that does not exist under the setting (inside the
# spring-forward hour of 2021)
GAPS = {
    "EST5EDT,M3.2.0,M11.1.0": [2021, 3, 14, 2, 30],
    "CET-1CEST,M3.5.0,M10.5.0/3": [2021, 3, 28, 2, 30],
    "NZST-12NZDT,M9.5.0,M4.1.0/3": [2021, 9, 26, 2, 30],
    "EST-10EDT,M10.1.0,M4.1.0/3": [2021, 10, 3, 2, 30],
}
CLOCKS = [946684799.0, 946684800.0, 1709164800.0, 1e9, 1735689599.0,
          1743379200.0, 1706745600.0, 1711843200.0]
# (AT, ON, AND, ST are also "jump" words of the parser's vocabulary: as keys
# of tzinfos they are zone names all the same, fuzzy or not)
TZINFOS_NAMES = ["BRST", "XYZT", "QWE", "ZZ", "AT", "ON", "AND", "ST"]
UNKNOWN_NAMES = ["QQQ", "ABCDE", "JJT"]
# vetted filler: no digits, no parser vocabulary (months, weekdays, h/m/s
# words, am/pm incl. the article "a"), and no all-capitals word of five
# letters or fewer (after a time those read as a time-zone abbreviation)
FILLER_PRE = ["Today is", "the meeting was", "please note:", "we met",
              "reminder, the deadline is", "scheduled for", "it was",
              "roughly"]
FILLER_POST = ["roughly", "we think", "or so", "for the meeting", "sharp",
               "please", "in the office",
               # upper-case words that are not ASCII: never an abbreviation
               "\u00c9T\u00c9", "\u00dcBER uns", "\u041c\u0421\u041a"]


def TARGET_FILES(cls):
    return ["parser/_parser.py"]


def gen_default(rng):
    y = rng.choice([1999, 2003, 2024, 2023, 2100, 4, 9999])
    m = rng.choice([1, 1, 2, 3, 5, 8, 10, 12, rng.randrange(1, 13)])
    last = calendar.monthrange(y, m)[1]
    d = rng.choice([last, last, 29, 30, 31, 1, 15])
    d = min(d, last)
    return [y, m, d, rng.randrange(24), rng.randrange(60), rng.randrange(60),
            rng.choice([0, 456, 999999])]


PARTIALS = ["HH:MM", "HH:MM:SS", "HHam", "Mon", "Month YYYY", "YYYY",
            "YYYY-MM", "Mon DD", "DD", "Wd", "Weekday HH:MM", "Mon YYYY",
            "HH:MM:SS.ffffff", "DD Mon", "YYYY-MM-DD", "Wd DD Mon",
            "Wd Month",
            "Wd Mon YYYY", "Wd Month HH:MM"]


def gen_fill(rng):
    return ["fill", rng.choice(PARTIALS), R_fields(rng), gen_default(rng),
            rng.choice(["explicit", "explicit", "explicit", "clock",
                        "aware"])]


def R_fields(rng):
    y = rng.choice([1999, 2003, 2023, 2024, 2100])
    m = rng.randrange(1, 13)
    d = rng.randrange(1, 32)
    return [y, m, d, rng.randrange(24), rng.randrange(60), rng.randrange(60),
            rng.randrange(10 ** 6), rng.randrange(7)]


def _foreign_zone(inner):
    """A tzinfo of a class dateutil knows nothing about: PEP 495 behaviour
    (utcoffset/dst/tzname honour dt.fold) borrowed from a rule zone, none of
    dateutil's own methods (is_ambiguous, ...)."""
    class Foreign(datetime.tzinfo):
        def utcoffset(self, dt):
            return inner.utcoffset(dt.replace(tzinfo=inner))

        def dst(self, dt):
            return inner.dst(dt.replace(tzinfo=inner))

        def tzname(self, dt):
            return inner.tzname(dt.replace(tzinfo=inner))

        def __repr__(self):
            return "Foreign()"
    return Foreign()


def gen_zone(rng):
    kind = rng.choice(["tzinfos_map", "tzinfos_map", "tzinfos_callable",
                       "local", "local", "local_ambiguous", "local_gap",
                       "utc", "utc",
                       "numeric", "numeric_named", "gmt_plus", "unknown",
                       "local_with_offset", "named_then_offset",
                       "tzinfos_alias_ambiguous", "tzinfos_own_abbr_repeated",
                       "tzinfos_over_local", "tzinfos_over_utc", "none"])
    op = ["zone", kind, [2003, rng.randrange(1, 13), rng.randrange(1, 29),
                         rng.randrange(24), rng.randrange(60),
                         rng.randrange(60)],
          rng.random() < 0.15]       # ignoretz
    if kind in ("tzinfos_map", "tzinfos_callable", "tzinfos_over_local",
                "tzinfos_over_utc"):
        op.append(rng.choice(["tzinfo", "int", "int0", "str", "none"]))
        op.append(rng.choice(TZINFOS_NAMES))
    elif kind in ("local", "local_ambiguous", "local_gap"):
        op.append(rng.randrange(2))
    elif kind == "named_then_offset":
        op.append(rng.choice(["BRST", "XYZT", "QWE"]))
        op.append(rng.choice([-11, -3, -1, 1, 3, 9, 11]))
    elif kind == "tzinfos_alias_ambiguous":
        op.append(rng.choice(["ET", "XX", "EASTN"]))
        op.append(rng.choice(["tzstr", "str", "callable"]))
    elif kind == "tzinfos_own_abbr_repeated":
        op.append(rng.choice(["EST", "EDT"]))
        op.append(rng.choice(["tzstr", "foreign", "foreign"]))
    elif kind == "local_with_offset":
        op.append(rng.randrange(2))
        op.append(rng.choice(["name offset", "offset (name)"]))
        op.append(rng.choice([3600, -18000, -14400, 7200, 39600]))
    elif kind == "utc":
        op.append(rng.choice([" UTC", " Z", "Z", " GMT", " z", " +00:00",
                              "+00:00", " -0000", " +00"]))
    elif kind in ("numeric", "numeric_named"):
        op.append(rng.choice([3600, -10800, 19800, -12600, 86340, -86340,
                              rng.randrange(-1439, 1440) * 60]))
        op.append(rng.choice([" +HH:MM", "+HH:MM", " +HHMM", "+HHMM",
                              " +H", " +H:MM"]))
        op.append(rng.choice(["BRST", "XYZT", "QWE"] + UNKNOWN_NAMES))
        if op[-2] in (" +H", " +H:MM"):
            # offsets written with a single hour digit: -3, +9, +5:30
            h = rng.choice([-9, -5, -3, -1, 1, 3, 5, 9])
            m = rng.choice([0, 30, 45]) if op[-2] == " +H:MM" else 0
            op[-3] = h * 3600 + (m * 60 if h > 0 else -m * 60)
    elif kind == "gmt_plus":
        op.append(rng.choice(["GMT", "UTC"]))
        op.append(rng.choice([-11, -5, -1, 1, 3, 9, 12]))
    elif kind == "unknown":
        op.append(rng.choice(UNKNOWN_NAMES))
    return op


def gen_fuzzy(rng):
    full = [t["name"] for t in R.TEMPLATES
            if not t["twodigit"] and t["has_time"]]
    return ["fuzzy", rng.choice(full),
            [rng.choice([1999, 2003, 2024, 2047]), rng.randrange(1, 13),
             rng.randrange(1, 29), rng.randrange(24), rng.randrange(60),
             rng.randrange(60), rng.randrange(10 ** 6)],
            rng.choice(FILLER_PRE + [""]), rng.choice(FILLER_POST + [""])]


def generate(cls, rng):
    init = dict(clock=rng.choice(CLOCKS), tz=rng.randrange(len(TZ_SETTINGS)))
    if cls == "threads":
        threads = [[gen_fuzzy(rng) if rng.random() < 0.6 else gen_fill(rng)
                    for _ in range(rng.randrange(1, 4))]
                   for _ in range(rng.choice([2, 2, 3]))]
        for prog in threads:
            for op in prog:
                if op[0] == "fuzzy" and not (op[3] or op[4]):
                    op[3] = rng.choice(FILLER_PRE)
        strat = rng.choice([
            dict(kind="random", p=rng.choice([0.02, 0.1, 1.0])),
            dict(kind="pb", k=rng.choice([1, 2, 3]),
                 horizon=rng.choice([300, 1500, 5000])),
            dict(kind="pct", d=rng.choice([2, 3]),
                 horizon=rng.choice([300, 1500, 5000])),
            dict(kind="crit", k=rng.choice([1, 2, 3]),
                 q=rng.choice([0.05, 0.15, 0.4]), p=rng.choice([0.0, 0.02])),
            dict(kind="pbx", k=rng.choice([1, 1, 2, 3])), dict(kind="pbx", k=rng.choice([1, 1, 2, 3]))])
        return dict(init=init, threads=threads,
                    sched=dict(strategy=strat, seed=rng.getrandbits(32)))
    from dsim import depth as DP
    ops = []
    for _ in range(rng.randrange(6, DP.pick(40, 120))):
        r = rng.random()
        if r < 0.10:
            ops.append(["set_tz", rng.randrange(len(TZ_SETTINGS))])
        elif r < 0.20:
            ops.append(rng.choice([["tick", rng.choice([1, 3600, 86400])],
                                   ["jump", rng.choice(CLOCKS)],
                                   ["decimal", rng.choice([28, 9, 6, 3]),
                                    rng.choice(["ROUND_HALF_EVEN",
                                                "ROUND_DOWN",
                                                "ROUND_UP"])],
                                   ["intmax", rng.choice([0, 640, 4300])]]))
        elif r < 0.28 and ops and ops[-1][0] in ("fill", "zone", "fuzzy"):
            # the same call again, immediately: same text, same answer
            ops.append(list(ops[-1]))
        elif r < 0.50:
            ops.append(gen_fill(rng))
        elif r < 0.80:
            ops.append(gen_zone(rng))
        else:
            ops.append(gen_fuzzy(rng))
    return dict(init=init, ops=ops)


# ---------------------------------------------------------------------------

class _Fixed(datetime.tzinfo):
    def __init__(self, name, secs):
        self._n, self._s = name, secs

    def utcoffset(self, dt):
        return datetime.timedelta(seconds=self._s)

    def dst(self, dt):
        return datetime.timedelta(0)

    def tzname(self, dt):
        return self._n

    def __repr__(self):
        return "_Fixed(%r, %r)" % (self._n, self._s)


_DEFAULT_ZONE = _Fixed("DFLT", 5400)


class Env(object):
    def __init__(self, ctx, init):
        import dateutil.parser._parser as P
        from dateutil import parser, tz
        self.parser = parser
        self.tzmod = tz
        self.ctx = ctx
        self.clock = simclock.install()
        self.set_tz(init["tz"])
        self.clock.t = self.clock.t_min = self.clock.t_max = float(
            init["clock"])
        P.DEFAULTPARSER = P.parser()
        self.config_events = 0
        self.threaded = False

    def set_tz(self, i):
        v, names, amb = TZ_SETTINGS[i]
        if v is None:
            os.environ.pop("TZ", None)
        else:
            os.environ["TZ"] = v
        time.tzset()
        self.tzi = i
        # glibc is the authority on the local abbreviations
        self.local_names = [n for n in time.tzname]

    def parse(self, text, **kw):
        if self.threaded:
            # warnings.catch_warnings is process-global state
            return self.parser.parse(text, **kw), []
        with warnings.catch_warnings(record=True) as wl:
            warnings.simplefilter("always")
            r = self.parser.parse(text, **kw)
        return r, sorted(set(w.category.__name__ for w in wl))


def render_partial(kind, f):
    """(text, set of rendered field names)."""
    y, m, d, H, M, S, us, wd = f
    mon = R.MONTHS3[m - 1]
    if kind == "HH:MM":
        return "%02d:%02d" % (H, M), {"hour", "minute"}
    if kind == "HH:MM:SS":
        return "%02d:%02d:%02d" % (H, M, S), {"hour", "minute", "second"}
    if kind == "HH:MM:SS.ffffff":
        return "%02d:%02d:%02d.%06d" % (H, M, S, us), {"hour", "minute",
                                                       "second",
                                                       "microsecond"}
    if kind == "HHam":
        h12 = H % 12 or 12
        return "%d%s" % (h12, "am" if H < 12 else "pm"), {"hour"}
    if kind == "Mon":
        return R.MONTHSF[m - 1], {"month"}
    if kind == "Month YYYY":
        return "%s %04d" % (R.MONTHSF[m - 1], y), {"month", "year"}
    if kind == "Mon YYYY":
        return "%s %04d" % (mon, y), {"month", "year"}
    if kind == "YYYY":
        return "%04d" % y, {"year"}
    if kind == "YYYY-MM":
        return "%04d-%02d" % (y, m), {"year", "month"}
    if kind == "Mon DD":
        return "%s %02d" % (mon, d), {"month", "day"}
    if kind == "DD Mon":
        return "%02d %s" % (d, mon), {"month", "day"}
    if kind == "DD":
        return "%02d" % d, {"day"}
    if kind == "Wd":
        return R.WDF[wd], {"weekday"}
    if kind == "Weekday HH:MM":
        return "%s %02d:%02d" % (R.WD3[wd], H, M), {"weekday", "hour",
                                                    "minute"}
    if kind == "YYYY-MM-DD":
        return "%04d-%02d-%02d" % (y, m, d), {"year", "month", "day"}
    # a weekday together with a month (and year) but no day number: the
    # default's day is clipped to that month first, then moved forward
    if kind == "Wd DD Mon":
        # a weekday next to a day number: the day wins, nothing is moved
        return "%s %02d %s" % (R.WD3[wd], d, mon), {"weekday", "month",
                                                    "day"}
    if kind == "Wd Month":
        return "%s %s" % (R.WDF[wd], R.MONTHSF[m - 1]), {"weekday", "month"}
    if kind == "Wd Mon YYYY":
        return "%s %s %04d" % (R.WD3[wd], mon, y), {"weekday", "month",
                                                    "year"}
    if kind == "Wd Month HH:MM":
        return "%s %s %02d:%02d" % (R.WDF[wd], R.MONTHSF[m - 1], H, M), \
            {"weekday", "month", "hour", "minute"}
    raise ValueError(kind)


def fill_model(default, f, fields):
    """Documented default fill-in: replace exactly the rendered fields; when
    no day was rendered clip the default's day to the resulting month; a
    weekday (without a day) moves the result forward to that weekday.
    Returns a datetime, or None when the rendered fields themselves do not
    form a valid date (the parser must refuse)."""
    y, m, d, H, M, S, us, wd = f
    vals = dict(year=y, month=m, day=d, hour=H, minute=M, second=S,
                microsecond=us)
    repl = dict((k, vals[k]) for k in fields if k != "weekday")
    if "second" in repl and "microsecond" not in repl:
        # a rendered seconds value is a decimal number: "13" is 13.000000 s,
        # so the fraction is part of the seconds field, not absent
        repl["microsecond"] = 0
    ry = repl.get("year", default.year)
    rm = repl.get("month", default.month)
    clipped = False
    if "day" not in repl:
        last = calendar.monthrange(ry, rm)[1]
        if default.day > last:
            repl["day"] = last
            clipped = True
    else:
        if repl["day"] > calendar.monthrange(ry, rm)[1]:
            return None, False, False
    out = default.replace(**repl)
    moved = False
    if "weekday" in fields and "day" not in fields:
        delta = (wd - out.weekday()) % 7
        if delta:
            moved = True
            try:
                out = out + datetime.timedelta(days=delta)
            except OverflowError:
                return None, False, False
    return out, clipped, moved


def execute_threads(scenario, ctx):
    from dsim.kernel import Scheduler
    warnings.simplefilter("ignore")
    env = Env(ctx, scenario["init"])
    env.threaded = True
    st = scenario["sched"]
    sched = Scheduler(st["strategy"], st.get("seed", 0), tape=st.get("tape"),
                      max_steps=4000000)
    for ti, prog in enumerate(scenario["threads"]):
        def body(prog=prog):
            for op in prog:
                if op[0] == "fill":
                    do_fill(env, ctx, op)
                elif op[0] == "fuzzy":
                    do_fuzzy(env, ctx, op)
        sched.spawn(body, "T%d" % ti)
    try:
        sched.run()
    finally:
        ctx.sched_summary = sched.summary()
    ctx.fault("preemption", sched.preemptions)
    if sched.switches:
        ctx.nontrivial = True


def execute(cls, scenario, ctx):
    if cls == "threads":
        return execute_threads(scenario, ctx)
    env = Env(ctx, scenario["init"])
    kinds = set()
    judged = 0
    K.set_budget(8000000)
    try:
        for op in scenario["ops"]:
            try:
                if op[0] == "set_tz":
                    env.set_tz(op[1])
                    env.config_events += 1
                    ctx.event("world", op)
                elif op[0] == "tick":
                    env.clock.tick(op[1])
                    env.config_events += 1
                    ctx.event("world", op)
                elif op[0] == "jump":
                    env.clock.set(op[1])
                    env.config_events += 1
                    ctx.event("world", op)
                elif op[0] == "decimal":
                    import decimal
                    c = decimal.getcontext()
                    c.prec = op[1]
                    c.rounding = getattr(decimal, op[2])
                    env.config_events += 1
                    ctx.event("world", op)
                elif op[0] == "intmax":
                    # the interpreter's int<->str digit limit
                    import sys
                    if hasattr(sys, "set_int_max_str_digits"):
                        sys.set_int_max_str_digits(op[1])
                    env.config_events += 1
                    ctx.event("world", op)
                elif op[0] == "fill":
                    if do_fill(env, ctx, op):
                        kinds.add("fill")
                        judged += 1
                elif op[0] == "zone":
                    if do_zone(env, ctx, op):
                        kinds.add("zone")
                        judged += 1
                elif op[0] == "fuzzy":
                    if do_fuzzy(env, ctx, op):
                        kinds.add("fuzzy")
                        judged += 1
            except (Deadlock, BudgetExceeded):
                raise
    except BudgetExceeded as e:
        ctx.violation("liveness.budget", dict(msg=str(e)))
    finally:
        K.set_budget(None)
    ctx.sim_clock_span = env.clock.span()
    if env.config_events and judged >= 5 and len(kinds) >= 2:
        ctx.nontrivial = True


def do_fill(env, ctx, op):
    _, kind, f, dflt, dkind = op
    text, fields = render_partial(kind, f)
    if dkind == "clock":
        # default=None: today (simulated clock, local time) at midnight
        lt = time.localtime(env.clock.t)
        default = datetime.datetime(lt.tm_year, lt.tm_mon, lt.tm_mday)
        kw = {}
        ctx.probe("fill.default_from_clock")
    elif dkind == "aware":
        # an aware default: its zone is one more field the text leaves alone
        default = datetime.datetime(*dflt, tzinfo=_DEFAULT_ZONE)
        kw = dict(default=default)
        ctx.probe("fill.aware_default")
    else:
        default = datetime.datetime(*dflt)
        kw = dict(default=default)
    want, clipped, moved = fill_model(default, f, fields)
    try:
        got, warns = env.parse(text, **kw)
    except env.parser.ParserError as e:
        ctx.checks += 1
        ctx.event("fill", text, "ParserError")
        if want is not None:
            ctx.violation("C15.fill_refused",
                          dict(text=text, default=default.isoformat(),
                               want=want.isoformat(), msg=str(e)[:120]))
        return True
    except OverflowError:
        ctx.event("fill", text, "OverflowError")
        return False
    ctx.checks += 1
    ctx.event("fill", text, got.isoformat())
    ctx.state("fill", kind, clipped, moved)
    if want is None:
        ctx.violation("C15.fill_accepted_invalid",
                      dict(text=text, default=default.isoformat(),
                           got=got.isoformat()))
        return True
    if clipped:
        ctx.probe("fill.day_clipped")
    if moved:
        ctx.probe("fill.weekday_moved")
    if got.replace(tzinfo=None) != want.replace(tzinfo=None) or \
            got.tzinfo is not default.tzinfo:
        ctx.violation("C15.fill_wrong",
                      dict(text=text, default=default.isoformat(),
                           got=got.isoformat(), want=want.isoformat(),
                           fields=sorted(fields), clipped=clipped,
                           moved=moved, dkind=dkind))
    return True


def tzinfos_value(env, vkind, name):
    tz = env.tzmod
    if vkind == "tzinfo":
        return _Fixed(name, -7200)
    if vkind == "int":
        return -7200
    if vkind == "int0":
        return 0
    if vkind == "str":
        return "AAA3BBB,M3.2.0,M11.1.0"
    return None


def do_zone(env, ctx, op):
    tz = env.tzmod
    kind, f, ignoretz = op[1], op[2], op[3]
    wall = datetime.datetime(*f)
    base = "%04d-%02d-%02d %02d:%02d:%02d" % tuple(f)
    kw = {}
    expect = None            # descriptor
    tag = None
    names_local = env.local_names
    if kind in ("tzinfos_map", "tzinfos_callable", "tzinfos_over_local",
                "tzinfos_over_utc"):
        vkind, name = op[4], op[5]
        if kind == "tzinfos_over_local":
            if not TZ_SETTINGS[env.tzi][1]:
                return False
            name = TZ_SETTINGS[env.tzi][1][0]
        elif kind == "tzinfos_over_utc":
            name = "UTC"
        val = tzinfos_value(env, vkind, name)
        if kind == "tzinfos_callable":
            kw["tzinfos"] = lambda n, o, name=name, val=val: \
                val if n == name else None
            tag = "tz.tzinfos_callable"
        else:
            kw["tzinfos"] = {name: val}
            tag = "tz.tzinfos_map"
        text = base + " " + name
        expect = ("tzinfos", vkind, name, val)
    elif kind in ("local", "local_ambiguous", "local_gap"):
        amb = TZ_SETTINGS[env.tzi][2]
        lnames = TZ_SETTINGS[env.tzi][1]
        if not lnames:
            return False
        if kind == "local_gap":
            # a wall time inside the hour skipped when daylight time starts
            # (found with glibc): the text's wall time must come back as
            # written, local zone attached, whatever it "means"
            gap = GAPS.get(TZ_SETTINGS[env.tzi][0])
            if gap is None:
                return False
            wall = datetime.datetime(*gap)
            base = "%04d-%02d-%02d %02d:%02d" % tuple(gap)
            tag = "tz.local_gap_hour"
        elif kind == "local_ambiguous":
            if amb is None:
                return False
            wall = datetime.datetime(*amb)
            base = "%04d-%02d-%02d %02d:%02d" % tuple(amb)
            tag = "tz.local_ambiguous_hour"
        else:
            tag = "tz.local_name"
        name = lnames[op[4] % len(lnames)]
        if name not in names_local:
            return False
        text = base + " " + name
        expect = ("local", name, kind == "local_ambiguous") \
            if kind != "local_gap" else ("local_gap", name)
    elif kind == "named_then_offset":
        # an abbreviation that is neither local nor in tzinfos, a blank, a
        # signed hour: a fixed offset of that many hours with that name
        name, h = op[4], op[5]
        if name in names_local:
            return False
        text = "%s %s %+d" % (base, name, h)
        expect = ("offset", h * 3600, name)
        tag = "tz.named_then_offset"
    elif kind == "tzinfos_alias_ambiguous":
        # tzinfos maps an alias (not one of the zone's own abbreviations) to
        # a daylight-saving zone; the wall time lies in the repeated hour:
        # the zone is attached and the first reading (fold=0) is kept
        alias, how = op[4], op[5]
        zs = "EST5EDT,M3.2.0,M11.1.0"
        z = tz.tzstr(zs)
        wall = datetime.datetime(2011, 11, 6, 1, 30)
        base = "2011-11-06 01:30"
        if alias in names_local:
            return False
        kw["tzinfos"] = {alias: z} if how == "tzstr" else \
            {alias: zs} if how == "str" else (lambda n, o: z)
        text = base + " " + alias
        expect = ("alias_fold0", zs)
        tag = "tz.tzinfos_alias_in_repeated_hour"
    elif kind == "tzinfos_own_abbr_repeated":
        # tzinfos maps one of the zone's OWN abbreviations to a daylight-
        # saving zone and the wall time lies in the repeated hour: the
        # abbreviation written in the text says which of the two readings
        # is meant. The zone is a dateutil tzstr or a tzinfo of a foreign
        # class that follows PEP 495 (fold) and has no dateutil extras
        name, how = op[4], op[5]
        zs = "EST5EDT,M3.2.0,M11.1.0"
        z = tz.tzstr(zs) if how == "tzstr" else _foreign_zone(tz.tzstr(zs))
        wall = datetime.datetime(2011, 11, 6, 1, 30)
        base = "2011-11-06 01:30"
        if name in names_local:
            return False
        kw["tzinfos"] = {name: z}
        text = base + " " + name
        expect = ("own_abbr", z, name)
        tag = "tz.tzinfos_own_abbreviation_in_repeated_hour"
    elif kind == "local_with_offset":
        # a local abbreviation AND a numeric offset in one text (what
        # strftime("%Z %z") prints): local names come first in the
        # documented order, so the result carries the local zone
        lnames = TZ_SETTINGS[env.tzi][1]
        if not lnames:
            return False
        name = lnames[op[4] % len(lnames)]
        if name not in names_local or name in ("UTC", "GMT"):
            return False
        a = abs(op[6])
        num = "%s%02d%02d" % ("-" if op[6] < 0 else "+", a // 3600,
                              a % 3600 // 60)
        text = base + (" %s %s" % (name, num) if op[5] == "name offset"
                       else " %s (%s)" % (num, name))
        expect = ("local_kind", name)
        tag = "tz.local_name_with_offset"
    elif kind == "utc":
        form = op[4]
        text = base + form
        nm = form.strip()
        # every zero designator except "GMT" is normalised to the name "UTC"
        # first; when "UTC" is itself a local abbreviation (TZ=UTC or unset)
        # the local-name rule comes first and gives tzlocal() with offset 0
        if (nm in names_local) or (nm != "GMT" and "UTC" in names_local):
            expect = ("local_or_utc",)
        else:
            expect = ("utc",)
        tag = "tz.utc_designator"
    elif kind in ("numeric", "numeric_named"):
        off, form, name = op[4], op[5], op[6]
        if form in (" +H", " +H:MM"):
            a = abs(off)
            if a >= 36000 or a % 60 or (form == " +H" and a % 3600):
                return False
            suf = " %s%d" % ("-" if off < 0 else "+", a // 3600)
            if form == " +H:MM":
                suf += ":%02d" % (a % 3600 // 60)
            ctx.probe("tz.single_digit_hour_offset")
        else:
            suf = R.render_offset(form, off)
        if suf is None:
            return False
        text = base + suf
        if kind == "numeric_named":
            if name in names_local:
                return False
            text += " (%s)" % name
            expect = ("offset", off, name)
            tag = "tz.numeric_named"
        else:
            expect = ("offset", off, None)
            tag = "tz.numeric"
        if off == 0:
            # a bare zero offset is normalised to the name "UTC" (a local
            # name when TZ is UTC or unset); with an explicit (NAME) it stays
            # a zero offset and gives UTC
            if kind == "numeric" and "UTC" in names_local:
                expect = ("local_or_utc",)
            else:
                expect = ("utc",)
    elif kind == "gmt_plus":
        word, h = op[4], op[5]
        if word in names_local:
            return False
        text = "%s %s%+d" % (base, word, h)
        if h:
            expect = ("offset", -h * 3600, None)
        else:
            # (only reachable through shrinking) a zero offset is UTC, or the
            # local zone when "UTC" is itself a local abbreviation
            expect = ("local_or_utc",) if "UTC" in names_local else ("utc",)
        tag = "tz.gmt_plus"
    elif kind == "unknown":
        name = op[4]
        if name in names_local:
            return False
        text = base + " " + name
        expect = ("unknown",)
        tag = "tz.unknown_warned"
    else:
        text = base
        expect = ("naive",)
        tag = None
    if kind in ("local", "local_ambiguous", "tzinfos_own_abbr_repeated",
                "tzinfos_alias_ambiguous") and text.startswith(base) and \
            (wall.day + wall.minute) % 3 == 0:
        # the same wall time written as "<weekday> HH:MM <zone>" with a
        # default up to six days earlier: the weekday move lands on the
        # date first, the zone (and its reading of a repeated hour) is
        # resolved for THAT date
        k = (wall.second + wall.hour) % 7
        try:
            kw["default"] = datetime.datetime.combine(
                wall.date() - datetime.timedelta(days=k), datetime.time())
            text = R.WDF[wall.weekday()] + " " + base.split(" ", 1)[1] + \
                text[len(base):]
            ctx.probe("tz.weekday_move_then_zone")
        except OverflowError:
            kw.pop("default", None)
    if ignoretz:
        kw["ignoretz"] = True
    try:
        got, warns = env.parse(text, **kw)
    except Exception as e:
        ctx.checks += 1
        ctx.violation("C15.zone_raises",
                      dict(text=text, kind=kind, exc=type(e).__name__,
                           msg=str(e)[:160], tz=TZ_SETTINGS[env.tzi][0]))
        return True
    ctx.checks += 1
    ctx.event("zone", text, got.isoformat(), repr(type(got.tzinfo).__name__),
              warns, bool(ignoretz))
    ctx.state("zone", kind, bool(ignoretz), env.tzi)
    detail = dict(text=text, kind=kind, got=got.isoformat(),
                  tzinfo=repr(got.tzinfo)[:80], warnings=warns,
                  tz=TZ_SETTINGS[env.tzi][0], ignoretz=bool(ignoretz))
    if got.replace(tzinfo=None) != wall:
        ctx.violation("C15.zone_wall_time_changed", detail)
        return True
    if ignoretz:
        ctx.probe("tz.ignoretz")
        if got.tzinfo is not None:
            ctx.violation("C15.ignoretz_not_naive", detail)
        return True
    if tag:
        ctx.probe(tag)
    k = expect[0]
    ok = True
    if k == "naive":
        ok = got.tzinfo is None and not warns
    elif k == "unknown":
        ok = got.tzinfo is None and "UnknownTimezoneWarning" in warns
    elif k == "utc":
        ok = got.tzinfo is tz.UTC
    elif k == "local_or_utc":
        ok = got.tzinfo is not None and \
            got.utcoffset() == datetime.timedelta(0)
    elif k == "offset":
        _, off, name = expect
        ok = isinstance(got.tzinfo, tz.tzoffset) and \
            got.utcoffset().total_seconds() == off and \
            got.tzname() == name
    elif k in ("local_gap", "local_kind"):
        ok = isinstance(got.tzinfo, tz.tzlocal)
    elif k == "own_abbr":
        _, z, name = expect
        ok = got.tzinfo is z and got.tzname() == name and \
            got.fold == (1 if name == "EST" else 0) and \
            got.utcoffset().total_seconds() == \
            (-18000 if name == "EST" else -14400)
    elif k == "alias_fold0":
        ok = isinstance(got.tzinfo, tz.tzstr) and \
            got.tzinfo == tz.tzstr(expect[1]) and got.fold == 0 and \
            got.utcoffset().total_seconds() == -14400
    elif k == "local":
        _, name, ambiguous = expect
        ok = isinstance(got.tzinfo, tz.tzlocal)
        if ok:
            # glibc decides what the wall time means under this setting
            if ambiguous:
                ok = got.tzname() == name
                std_first = TZ_SETTINGS[env.tzi][1][0]
                # the standard-time reading of an ambiguous hour is the
                # later one (fold=1), the daylight reading the earlier
                ok = ok and got.fold == (1 if name == std_first else 0)
            want_off = _glibc_offset(wall, got.fold)
            if want_off is not None:
                ok = ok and got.utcoffset().total_seconds() == want_off
    elif k == "tzinfos":
        _, vkind, name, val = expect
        if vkind == "tzinfo":
            ok = got.tzinfo is val
        elif vkind in ("int", "int0"):
            ok = isinstance(got.tzinfo, tz.tzoffset) and \
                got.utcoffset().total_seconds() == val and \
                got.tzname() == name
        elif vkind == "str":
            ok = isinstance(got.tzinfo, tz.tzstr) and \
                got.tzinfo == tz.tzstr(val)
        else:
            ok = got.tzinfo is None
        ok = ok and "UnknownTimezoneWarning" not in warns
    if not ok:
        detail["expected"] = [str(x) for x in expect]
        ctx.violation("C15.zone_resolution_wrong", detail)
        return True
    # "any text accepted without fuzzy yields the same result with fuzzy":
    # zone texts too, not only the filler sentences
    if (f[4] + f[5]) % 3 == 0:
        try:
            fz, fwarns = env.parse(text, fuzzy=True, **kw)
        except Exception as e:
            detail.update(exc=type(e).__name__, msg=str(e)[:120])
            ctx.violation("C15.fuzzy_rejects_accepted_text", detail)
            return True
        ctx.checks += 1
        ctx.probe("fuzzy.zone_text_same")
        same = fz.replace(tzinfo=None) == got.replace(tzinfo=None) and \
            (fz.tzinfo is None) == (got.tzinfo is None) and \
            (fz.tzinfo is None or (fz.utcoffset() == got.utcoffset() and
                                   fz.tzname() == got.tzname() and
                                   type(fz.tzinfo) is type(got.tzinfo))) \
            and fwarns == warns
        if not same:
            detail.update(fuzzy=fz.isoformat(),
                          fuzzy_tzinfo=repr(fz.tzinfo)[:80],
                          fuzzy_warnings=fwarns)
            ctx.violation("C15.fuzzy_differs_from_plain", detail)
    return True


def _glibc_offset(wall, fold):
    """UTC offset glibc assigns to a local wall time (None if it does not
    exist); for an ambiguous time `fold` picks the occurrence."""
    try:
        tt = (wall.year, wall.month, wall.day, wall.hour, wall.minute,
              wall.second, 0, 0, -1)
        cands = []
        for isdst in (0, 1):
            t = time.mktime(tt[:8] + (isdst,))
            lt = time.localtime(t)
            if (lt.tm_year, lt.tm_mon, lt.tm_mday, lt.tm_hour, lt.tm_min,
                    lt.tm_sec) == tt[:6]:
                cands.append(t)
        cands = sorted(set(cands))
        if not cands:
            return None
        t = cands[-1] if fold else cands[0]
        return int((datetime.datetime(*tt[:6]) - datetime.datetime(1970, 1, 1)
                    ).total_seconds() - t)
    except (OverflowError, ValueError):
        return None


def do_fuzzy(env, ctx, op):
    _, tname, f, pre, post = op
    t = R.BY_NAME[tname]
    d = datetime.datetime(*f)
    core = t["fn"](d)
    want = R.truncate(d, t["precision"])
    default = datetime.datetime(2003, 9, 25)
    kw = dict(t["flags"], default=default)
    sentence = ((pre + " ") if pre else "") + core + \
        ((" " + post) if post else "")
    try:
        plain, _w = env.parse(core, **kw)
    except Exception as e:
        ctx.checks += 1
        ctx.violation("C15.fuzzy_core_raises",
                      dict(text=core, exc=type(e).__name__))
        return True
    ctx.checks += 1
    ctx.event("fuzzy", sentence)
    ctx.state("fuzzy", tname, bool(pre), bool(post))
    if plain != want:
        # the inverse law itself is C02's business; only relations here
        want = plain
    detail = dict(sentence=sentence, core=core, template=tname)
    # accepted plain => same with fuzzy
    try:
        fz, _w = env.parse(core, fuzzy=True, **kw)
    except Exception as e:
        detail["exc"] = type(e).__name__
        ctx.violation("C15.fuzzy_rejects_accepted_text", detail)
        return True
    ctx.probe("fuzzy.plain_same")
    if fz != plain:
        detail.update(plain=plain.isoformat(), fuzzy=fz.isoformat())
        ctx.violation("C15.fuzzy_differs_from_plain", detail)
        return True
    if not (pre or post):
        return True
    try:
        got, _w = env.parse(sentence, fuzzy=True, **kw)
        got2, _w = env.parse(sentence, fuzzy_with_tokens=True, **kw)
    except Exception as e:
        detail["exc"] = type(e).__name__
        detail["msg"] = str(e)[:120]
        ctx.violation("C15.fuzzy_sentence_raises", detail)
        return True
    ctx.probe("fuzzy.sentence")
    if got != want:
        detail.update(got=got.isoformat(), want=want.isoformat())
        ctx.violation("C15.fuzzy_sentence_wrong_date", detail)
        return True
    if not (isinstance(got2, tuple) and len(got2) == 2 and
            isinstance(got2[1], tuple)):
        detail["got"] = repr(got2)[:120]
        ctx.violation("C15.fuzzy_tokens_shape", detail)
        return True
    ctx.probe("fuzzy.tokens")
    dt2, tokens = got2
    if dt2 != got:
        detail.update(got=dt2.isoformat(), want=got.isoformat())
        ctx.violation("C15.fuzzy_tokens_other_date", detail)
        return True
    # the skipped text, in order: every token occurs in the sentence after
    # the previous one, and every filler word is inside some token
    pos = 0
    for tok in tokens:
        i = sentence.find(tok, pos)
        if i < 0:
            detail["tokens"] = list(tokens)
            ctx.violation("C15.fuzzy_tokens_not_in_order", detail)
            return True
        pos = i + len(tok)
    joined = "\x00".join(tokens)
    p = 0
    for word in (pre.split() + post.split()):
        w = word.strip(",:")
        if not w or env.parser.parserinfo().jump(w):
            continue
        i = joined.find(w, p)
        if i < 0:
            detail["tokens"] = list(tokens)
            detail["missing"] = w
            ctx.violation("C15.fuzzy_tokens_missing_text", detail)
            return True
        p = i + len(w)
    return True
