"""C14 — parse() is total: a datetime, ParserError or OverflowError, always
terminating; deterministic; leaves no state behind.

Classes
  calls    one thread: a generated history of parse() calls (module function
           and explicit parsers; str/bytes/bytearray/StringIO/char-at-a-time
           stream/non-text inputs; all option combinations) interleaved with
           simulated clock ticks/jumps and process-TZ changes; afterwards every
           call is repeated in another order under its original clock/TZ
  stream   text delivered by a faulty character stream (exception at read k,
           early EOF): only the stream's own exception may pass through
  threads  2-3 real threads share the module default parser and one explicit
           parser, pre-empted at every line of _parser.py; every outcome must
           equal the sequential outcome of the same call
"""
import copy as _copy
import datetime
import io
import warnings

from dsim.kernel import K, Scheduler, Deadlock, BudgetExceeded
from dsim import simclock

PROPERTY = "C14"
SRC_DIR = None


def _pred_int_limit_hit(scenario, invariant, detail):
    """D15: the two evaluations that differ ran under different int<->str
    digit limits, and the text holds a run of digits longer than one of
    them (so int() of that run was refused in one evaluation only)."""
    lim = detail.get("int_limit")
    run = detail.get("digit_run")
    if not lim or run is None or lim[0] == lim[1]:
        return False
    finite = [x for x in lim if x > 0]
    return bool(finite) and run > min(finite)


KNOWN_PREDICATES = {"int_limit_hit": _pred_int_limit_hit}


def longest_digit_run(op):
    """Longest run of digit characters in the text of a call."""
    best = cur = 0
    t = op[2][1] if len(op) > 2 and isinstance(op[2], list) and \
        len(op[2]) > 1 else ""
    if not isinstance(t, str):
        t = repr(t)
    for ch in t:
        if ch.isdigit():
            cur += 1
            if cur > best:
                best = cur
        else:
            cur = 0
    return best

LEVEL_TEXT = (
    "Seeded search over call histories: generated texts (token grammar over "
    "the parser's own vocabulary, digit runs of length 1-40 and up to 5000, "
    "separators, signs, Unicode digits/letters, NUL, inf/nan/1e5-like words, "
    "mutations of valid renderings) with every option combination are parsed "
    "through the module function and explicit parsers as str, bytes, "
    "bytearray, StringIO, one-character streams and faulty streams, "
    "interleaved with simulated clock jumps and process-TZ changes and (threads "
    "class) from 2-3 real threads sharing the default parser with line-level "
    "pre-emption. Checked: outcome class, termination within a step budget "
    "proportional to the input length, determinism (every call repeated in "
    "another order / concurrently gives the identical outcome), no residue. "
    "Input space is sampled."
    " Session 3 added: oracle 'the same characters as text stream, bytes or str give the same outcome', short-read streams, decimal-context events, runs of up to 2500 identical characters, digit runs around CPython's 4300-digit limit, aware defaults, line-break separators.")
LEVEL_NOTE = (
    "Trusted: line events inside parser/_parser.py as the measure of "
    "'terminates promptly' (C-level work such as Decimal arithmetic is not "
    "counted); the simulated clock behind the parser module's datetime/time "
    "names; real TZ+tzset. tzinfos callables/mappings supplied by the harness "
    "only return valid values.")
TECHNIQUE = ("deterministic simulation of call histories with clock/TZ events, "
             "faulty streams and thread schedules; outcome-class, step-budget "
             "and replay-equality oracles")
RULE = ("one evaluation = one generated history of parse() calls with "
        "clock/TZ events (or per-thread programs + schedule); non-trivial = at "
        "least 3 calls with at least two different outcome classes, or a "
        "fired stream fault, or a thread switch inside the parser; distinct = "
        "distinct SHA-1 of the full event history")
EXPECTED_PROBES = ["outcome.datetime", "outcome.ParserError",
                   "outcome.OverflowError", "outcome.TypeError",
                   "outcome.tokens", "long_digit_run", "unicode_digit",
                   "clock_jump", "set_tz", "stream_fault_passed_through",
                   "repeat_identical", "fresh_process_identical"]

REAL = ['dateutil.parser from /repo/src', 'decimal, re, io.StringIO from CPython', 'glibc tzset under the real TZ variable', 'real OS threads in the threads class']
STUB = ['text streams (one character per read, injected exception / early EOF)', 'wall clock (SimClock)', 'thread scheduling (LINE events of parser/_parser.py)', "warnings delivery (per-thread recorder, 'always' filter)"]

CLASSES = {
    "calls":   dict(quick=8000, thorough=120000, timeout=60),
    "stream":  dict(quick=3000, thorough=40000, timeout=60),
    "threads": dict(quick=3000, thorough=40000, timeout=60),
}


def TARGET_FILES(cls):
    return ["parser/_parser.py"]


# ---------------------------------------------------------------------------
# text generation
# ---------------------------------------------------------------------------

MONTHS = ["Jan", "January", "feb", "MAR", "Sept", "Sep", "December", "may",
          "June", "jul", "Oct", "nov", "August", "Apr"]
WEEKDAYS = ["Mon", "Monday", "tue", "WED", "Thursday", "fri", "Sat", "sunday"]
HMS = ["h", "hour", "hours", "m", "min", "minute", "minutes", "s", "sec",
       "second", "seconds"]
AMPM = ["am", "pm", "AM", "PM", "a", "p", "a.m.", "P.M."]
JUMP = [" ", ".", ",", ";", "-", "/", "'", "at", "on", "and", "ad", "m", "t",
        "of", "st", "nd", "rd", "th", "T"]
ZONES = ["UTC", "GMT", "Z", "z", "EST", "EDT", "CET", "BRST", "XYZ", "ABCDEF",
         "UTC+3", "GMT-2", "+05:30", "-0800", "+0", "-00:00", "+2359",
         "+99:99", "(EST)", "EST5EDT"]
WORDS = ["inf", "nan", "Infinity", "-inf", "NaN", "1e5", "1E400", "1_000",
         "0x10", ".5", "5.", "1.2.3", "12.34.56", "1,5", "--", "++", "+-",
         "today", "now", "noon", "tomorrow", "the", "of", "in"]
ODD = ["١٢٣", "１２", "²", "é", "ß",
       "İ", "\x00", " ", "​", "\U0001d7d8", "१",
       "½", "﻿", "٠"]
SEPS = [" ", " ", " ", "-", "/", ".", ":", ",", "T", "+", "-", "", "", "  ",
        "\r\n", "\n", "\t"]


def digit_run(rng):
    r = rng.random()
    if r < 0.55:
        n = rng.choice([1, 2, 2, 4, 4, 6, 8, 12, 14])
    elif r < 0.9:
        n = rng.randrange(1, 41)
    elif r < 0.97:
        n = rng.choice([28, 29, 30, 31, 60, 100])
    else:
        # 4300 digits is CPython's default limit for int <-> text
        n = rng.choice([100, 500, 2000, 4299, 4301, 5000])
    return "".join(rng.choice("0123456789") for _ in range(n))


def valid_rendering(rng):
    y = rng.choice([1, 99, 100, 1969, 1999, 2000, 2024, 9999,
                    rng.randrange(1, 10000)])
    d = datetime.datetime(y, rng.randrange(1, 13), rng.randrange(1, 29),
                          rng.randrange(24), rng.randrange(60),
                          rng.randrange(60), rng.choice([0, 0, 123456, 999999]))
    k = rng.randrange(8)
    if k == 0:
        return d.isoformat()
    if k == 1:
        return d.strftime("%a %b %d %H:%M:%S") + " %04d" % d.year
    if k == 2:
        return d.strftime("%a, %d %b ") + "%04d" % d.year + \
            d.strftime(" %H:%M:%S +0000")
    if k == 3:
        return "%02d/%02d/%04d %02d:%02d" % (d.month, d.day, d.year, d.hour,
                                             d.minute)
    if k == 4:
        return d.strftime("%B %d, ") + "%d" % d.year + d.strftime(" %I:%M %p")
    if k == 5:
        return "%04d%02d%02dT%02d%02d%02d" % (d.year, d.month, d.day, d.hour,
                                              d.minute, d.second)
    if k == 6:
        return "%dh%02dm%02ds" % (d.hour, d.minute, d.second)
    return "%04d-%02d-%02d %02d:%02d:%02d,%06d" % (
        d.year, d.month, d.day, d.hour, d.minute, d.second, d.microsecond)


LONG_RUN_CHARS = ["\x00", " ", ".", ",", "-", "/", ":", "a", "Z", "0",
                  "\u0663", "\t", "\u00e9", "T", "+"]


def gen_text(rng):
    r = rng.random()
    if 0.955 < r <= 0.985:
        # a time followed by a sign, one or two digits, a colon and
        # something that is not a minute field; or by very long fractions
        tail = rng.choice([" -03: see below", " +3:pm", " -03:x9", " +11:",
                           " - see you", " +x", " -0300:", " +05:3x",
                           ".123456789012345678901234567890",
                           " 10:30.1234567890123456789012345678"])
        return valid_rendering(rng) + tail
    if r > 0.985:
        # a very long run of one character (NUL, blank, separator, letter,
        # digit), alone or around a well-formed rendering: the tokenizer must
        # neither recurse nor go quadratic on it
        run = rng.choice(LONG_RUN_CHARS) * rng.choice([300, 1100, 1100, 2000])
        k = rng.random()
        if k < 0.4:
            return run
        if k < 0.7:
            return valid_rendering(rng) + run
        return run + valid_rendering(rng)
    if r < 0.12:
        # a well-formed date and time followed by a zone word that is a local
        # abbreviation under some of the process-TZ settings
        y = rng.choice([1999, 2003, 2021, 2024])
        return "%04d-%02d-%02d %02d:%02d:%02d %s" % (
            y, rng.randrange(1, 13), rng.randrange(1, 29), rng.randrange(24),
            rng.randrange(60), rng.randrange(60),
            rng.choice(["EST", "EDT", "CET", "CEST", "UTC", "GMT", "XYZ",
                        "Z", "BRST"]))
    if r < 0.25:
        s = valid_rendering(rng)
        for _ in range(rng.choice([0, 1, 1, 2, 3])):
            if not s:
                break
            i = rng.randrange(len(s) + 1)
            m = rng.random()
            if m < 0.3:
                s = s[:i] + s[i + 1:]
            elif m < 0.6:
                s = s[:i] + rng.choice(SEPS + ZONES + WORDS + ODD +
                                       [digit_run(rng)]) + s[i:]
            elif m < 0.8 and i + 1 < len(s):
                s = s[:i] + s[i + 1] + s[i] + s[i + 2:]
            else:
                s = s[:i] + s[i:i + 3] + s[i:]
        return s
    parts = []
    for _ in range(rng.choice([1, 2, 3, 3, 4, 5, 6, 8, 12])):
        k = rng.random()
        if k < 0.40:
            parts.append(digit_run(rng))
        elif k < 0.50:
            parts.append(rng.choice(MONTHS))
        elif k < 0.55:
            parts.append(rng.choice(WEEKDAYS))
        elif k < 0.62:
            parts.append(rng.choice(HMS))
        elif k < 0.68:
            parts.append(rng.choice(AMPM))
        elif k < 0.76:
            parts.append(rng.choice(JUMP))
        elif k < 0.84:
            parts.append(rng.choice(ZONES))
        elif k < 0.92:
            parts.append(rng.choice(WORDS))
        else:
            parts.append(rng.choice(ODD))
        parts.append(rng.choice(SEPS))
    return "".join(parts)


NONTEXT = [["int", 12], ["none"], ["float", 1.5], ["list"], ["datetime"],
           ["tuple"], ["dict"]]


def gen_call(rng):
    r = rng.random()
    if r < 0.06:
        inp = ["nontext", rng.choice(NONTEXT)]
    else:
        form = rng.choice(["str", "str", "str", "bytes", "bytearray",
                           "stringio", "charstream", "shortstream"])
        inp = [form, gen_text(rng)]
    opts = {}
    for name in ("fuzzy", "fuzzy_with_tokens", "dayfirst", "yearfirst",
                 "ignoretz"):
        if rng.random() < 0.2:
            opts[name] = True
    if rng.random() < 0.25:
        opts["tzinfos"] = rng.choice(["map", "callable", "map_none", "map2",
                                      "callable2", "proxy", "proxy2"])
    if rng.random() < 0.5:
        opts["default"] = [rng.choice([1, 1999, 2003, 2024, 9999]),
                           rng.randrange(1, 13), rng.choice([1, 28, 29, 30, 31]),
                           rng.randrange(24), rng.randrange(60),
                           rng.randrange(60)]
        import calendar
        opts["default"][2] = min(opts["default"][2], calendar.monthrange(
            opts["default"][0], opts["default"][1])[1])
        if rng.random() < 0.15:
            opts["default_aware"] = True
    via = rng.choice(["module", "module", "parser0", "parser1"])
    return ["parse", via, inp, opts]


# Every daylight-saving setting carries explicit rules: for a TZ string
# without them glibc borrows the rules of its "posixrules" file, and under
# that fallback localtime() is not a function of (TZ, instant) -- after a
# mktime() call the same instant is reported with the other offset (checked
# with the time module alone, no dateutil involved). Such settings would make
# any history-independence oracle report libc, not dateutil.
TZ_SETTINGS = [None, "UTC", "EST5EDT,M3.2.0,M11.1.0",
               "CET-1CEST,M3.5.0,M10.5.0/3", "XYZ-3:30",
               "EST-10EDT,M10.1.0,M4.1.0/3", "CET-3CEST,M10.5.0,M3.5.0/3"]
CLOCKS = [946684799.0, 946684800.0, 2524607999.0, 1709164800.0, 1e9,
          4102444799.0, 0.0, 1735689599.5]


def gen_world_op(rng):
    r = rng.random()
    if r < 0.4:
        return ["tick", rng.choice([1, 2, 3600, 86400, 86400 * 366])]
    if r < 0.7:
        return ["jump", rng.choice(CLOCKS)]
    if r < 0.85:
        return ["set_tz", rng.choice(TZ_SETTINGS)]
    if r < 0.92:
        # the thread's decimal context (numbers in the text are read through
        # Decimal): not one of the things the outcome may depend on
        return ["decimal", rng.choice([28, 28, 9, 6, 3]),
                rng.choice(["ROUND_HALF_EVEN", "ROUND_HALF_EVEN",
                            "ROUND_DOWN", "ROUND_UP"]),
                rng.choice([None, None, "Rounded", "Inexact",
                            "Subnormal"])]
    if r < 0.94:
        # the interpreter's int<->str digit limit (sys.set_int_max_str_digits,
        # PYTHONINTMAXSTRDIGITS): process configuration a host may change,
        # and not one of the things the outcome may depend on
        return ["intmax", rng.choice([0, 0, 640, 640, 4300, 100000])]
    return ["new_parser", rng.choice([0, 1]), rng.random() < 0.5,
            rng.random() < 0.5]


def generate(cls, rng):
    from dsim import depth as DP
    init = dict(clock=rng.choice(CLOCKS), tz=rng.choice(TZ_SETTINGS))
    if cls == "calls":
        ops = []
        last = None
        for _ in range(rng.randrange(3, DP.pick(30, 90))):
            r = rng.random()
            if r < 0.2:
                ops.append(gen_world_op(rng))
            elif r < 0.4 and last is not None:
                # the same text again, through the same parser, with other
                # options: nothing of the previous call may carry over
                c = gen_call(rng)
                c[1] = last[1]
                c[2] = _copy.deepcopy(last[2])
                ops.append(c)
                last = c
            else:
                last = gen_call(rng)
                ops.append(last)
        return dict(init=init, ops=ops, repeat_seed=rng.getrandbits(30))
    if cls == "stream":
        ops = []
        for _ in range(rng.randrange(1, DP.pick(8, 20))):
            c = gen_call(rng)
            c[2] = ["faultystream", gen_text(rng),
                    dict(kind=rng.choice(["raise_at", "raise_at", "eof_at",
                                          "none"]),
                         k=rng.randrange(0, 30),
                         exc=rng.choice(["OSError", "KeyError",
                                         "RuntimeError", "ValueError",
                                         "UnicodeDecodeError",
                                         "BlockingIOError"]))]
            ops.append(c)
        return dict(init=init, ops=ops, repeat_seed=rng.getrandbits(30))
    # threads
    shared_texts = [gen_call(rng) for _ in range(3)]
    threads = []
    for _ in range(rng.choice(DP.pick([2, 2, 3], [3, 4, 4]))):
        prog = []
        for _ in range(rng.randrange(1, DP.pick(5, 9))):
            c = _copy.deepcopy(rng.choice(shared_texts)) \
                if rng.random() < 0.5 else gen_call(rng)
            if c[2][0] == "nontext" and rng.random() < 0.5:
                c[2] = ["str", gen_text(rng)]
            prog.append(c)
        threads.append(prog)
    kind = rng.choice(["random", "random", "pb", "pct", "pbx", "pbx"])
    if kind == "random":
        strat = dict(kind="random", p=rng.choice([0.01, 0.05, 0.2, 1.0]))
    elif kind == "pbx":
        strat = dict(kind="pbx", k=rng.choice([1, 1, 2, 3]))
    elif kind == "pb":
        strat = dict(kind="pb", k=rng.choice([0, 1, 2, 3]),
                     horizon=rng.choice([200, 1000, 4000]))
    else:
        strat = dict(kind="pct", d=rng.choice([1, 2, 3]),
                     horizon=rng.choice([200, 1000, 4000]))
    return dict(init=init, threads=threads,
                sched=dict(strategy=strat, seed=rng.getrandbits(32)))


# ---------------------------------------------------------------------------
# execution
# ---------------------------------------------------------------------------

class CharStream(object):
    """Text stream that hands out one character per read(), whatever size is
    asked for, with an optional fault."""

    def __init__(self, text, fault=None, on_fault=None):
        self.text = text
        self.pos = 0
        self.fault = fault or dict(kind="none")
        self.reads = 0
        self.on_fault = on_fault or (lambda k: None)

    def read(self, n=-1):
        self.reads += 1
        f = self.fault
        if f["kind"] == "raise_at" and self.reads > f["k"]:
            self.on_fault("stream_raise")
            raise InjectedStreamError.make(f["exc"])
        if f["kind"] == "eof_at" and self.reads > f["k"]:
            self.on_fault("stream_early_eof")
            return ""
        if n is None or n < 0:
            out = self.text[self.pos:]
            self.pos = len(self.text)
            return out
        out = self.text[self.pos:self.pos + 1]
        self.pos += len(out)
        return out


class InjectedStreamError(object):
    MARK = "injected-by-dsim"

    @staticmethod
    def make(name):
        if name == "UnicodeDecodeError":
            return UnicodeDecodeError("utf-8", b"\xff", 0, 1,
                                      InjectedStreamError.MARK)
        if name == "BlockingIOError":
            # a non-blocking stream that has nothing to deliver right now
            import errno
            return BlockingIOError(errno.EAGAIN, InjectedStreamError.MARK)
        cls = dict(OSError=OSError, KeyError=KeyError,
                   RuntimeError=RuntimeError, ValueError=ValueError)[name]
        return cls(InjectedStreamError.MARK)


def make_input(inp, ctx):
    form = inp[0]
    if form == "nontext":
        k = inp[1][0]
        return dict(int=12, none=None, float=1.5, list=["2003"],
                    datetime=datetime.datetime(2003, 1, 1), tuple=("2003",),
                    dict={"a": 1})[k]
    text = inp[1]
    if form == "str":
        return text
    if form in ("bytes", "bytearray"):
        b = text.encode("utf-8", "surrogatepass")
        return b if form == "bytes" else bytearray(b)
    if form == "stringio":
        return io.StringIO(text)
    if form == "charstream":
        return CharStream(text)
    if form == "shortstream":
        from dsim.simfs import ShortTextStream
        return ShortTextStream(text, len(text))
    if form == "faultystream":
        return CharStream(text, inp[2], ctx.fault)
    raise ValueError(form)


import re as _re
_ADDR = _re.compile(r"0x[0-9a-fA-F]+")


class _Brst(datetime.tzinfo):
    def utcoffset(self, dt):
        return datetime.timedelta(hours=-3)

    def dst(self, dt):
        return datetime.timedelta(0)

    def tzname(self, dt):
        return "BRST"

    def __repr__(self):
        return "Brst()"


def make_tzinfos(kind):
    from dateutil import tz
    table = {"BRST": -10800, "EST": tz.tzoffset("EST", -18000),
             "XYZ": "EST5EDT", "CET": _Brst(), "ABCDEF": 3600}
    if kind == "map":
        return table
    if kind == "map_none":
        return {"BRST": None, "EST": 0}
    # the same names bound to other values: what one mapping or callable
    # said must never answer for another
    table2 = {"BRST": -7200, "EST": "EST5EDT,M3.2.0,M11.1.0", "XYZ": 0,
              "CET": tz.tzoffset("CET", 3600), "ABCDEF": None}
    if kind in ("proxy", "proxy2"):
        # a read-only mapping (any Mapping will do for tzinfos)
        import types
        return types.MappingProxyType(table if kind == "proxy" else table2)
    if kind == "map2":
        return table2
    if kind == "callable2":
        return lambda name, offset: table2.get(name, offset)
    return lambda name, offset: table.get(name, offset)


_WARN = {}          # thread ident -> list of category names


def install_warning_recorder():
    """warnings.catch_warnings is process-global state and not thread safe;
    record through one global hook into per-thread lists instead, with the
    'always' filter so that emission never depends on the call history."""
    import _thread

    def showwarning(message, category, filename, lineno, file=None,
                    line=None):
        _WARN.setdefault(_thread.get_ident(), []).append(category.__name__)
    warnings.resetwarnings()
    warnings.simplefilter("always")
    warnings.showwarning = showwarning


def outcome_of(fn):
    """Run fn() and classify: ('dt', iso, tzdesc[, tokens]) or ('exc', type
    name, message). Warnings are part of the outcome."""
    import _thread
    me = _thread.get_ident()
    _WARN[me] = []
    try:
        r = fn()
    except (Deadlock, BudgetExceeded):
        raise
    except BaseException as e:
        if isinstance(e, (KeyboardInterrupt, SystemExit, GeneratorExit,
                          NotPrompt)):
            raise
        from dsim.kernel import SimBaseException
        if isinstance(e, SimBaseException):
            raise
        try:
            msg = str(e)[:300]
        except ValueError:
            msg = "<message not printable>"
        out = ["exc", type(e).__name__, _ADDR.sub("0x?", msg),
               [c.__name__ for c in type(e).__mro__]]
    else:
        out = describe(r)
    out.append(sorted(set(_WARN.pop(me, []))))
    return out


def describe(r):
    if isinstance(r, tuple) and len(r) == 2 and \
            isinstance(r[0], datetime.datetime) and isinstance(r[1], tuple) \
            and all(isinstance(x, str) for x in r[1]):
        d = describe(r[0])
        d[0] = "dt+tokens"
        d.append(list(r[1]))
        return d
    if isinstance(r, datetime.datetime):
        tzd = None
        if r.tzinfo is not None:
            try:
                off = r.utcoffset()
                tzd = [type(r.tzinfo).__name__,
                       None if off is None else off.total_seconds(),
                       r.tzname()]
                iso = r.isoformat()
            except ValueError as e:
                # a returned datetime whose zone cannot be queried
                return ["other", "unusable-tzinfo", _ADDR.sub(
                    "0x?", "%s: %s" % (type(r.tzinfo).__name__, e))]
            return ["dt", iso, tzd, r.fold]
        return ["dt", r.isoformat(), tzd, r.fold]
    return ["other", type(r).__name__, repr(r)[:200]]


def classify(ctx, call, out, text_len, fault_exc=None):
    """Outcome-class oracle (a)."""
    kind = out[0]
    inp = call[2]
    opts = call[3]
    if inp[0] == "nontext":
        ctx.probe("outcome.TypeError")
        if kind != "exc" or out[1] != "TypeError":
            ctx.violation("C14.nontext_not_typeerror",
                          dict(call=short(call), outcome=out[:3]))
        return
    if kind == "dt":
        ctx.probe("outcome.datetime")
        if opts.get("fuzzy_with_tokens"):
            ctx.violation("C14.wrong_result_shape",
                          dict(call=short(call), outcome=out[:3]))
        return
    if kind == "dt+tokens":
        ctx.probe("outcome.tokens")
        if not opts.get("fuzzy_with_tokens"):
            ctx.violation("C14.wrong_result_shape",
                          dict(call=short(call), outcome=out[:3]))
        return
    if kind == "other" and out[1] == "unusable-tzinfo":
        # a datetime was returned, as the property asks; that its zone has an
        # offset of 24 h or more (e.g. "+99:99") and raises when queried is
        # outside C14's statement: observed, not judged
        ctx.probe("returned_datetime_with_out_of_range_offset")
        return
    if kind == "other":
        ctx.violation("C14.wrong_result_shape",
                      dict(call=short(call), outcome=out[:3]))
        return
    name, msg, mro = out[1], out[2], out[3]
    if name == "ParserError" and "ValueError" in mro:
        ctx.probe("outcome.ParserError")
        return
    if name == "OverflowError":
        ctx.probe("outcome.OverflowError")
        return
    if fault_exc is not None and name == fault_exc and \
            InjectedStreamError.MARK in msg:
        ctx.probe("stream_fault_passed_through")
        return
    ctx.violation("C14.unexpected_exception",
                  dict(call=short(call), exc=name, msg=msg[:200], mro=mro[:4]))


def _plain(x):
    import json
    return json.loads(json.dumps(x, default=repr))


def short(call):
    c = _copy.deepcopy(call)
    t = c[2][1] if len(c[2]) > 1 and isinstance(c[2][1], str) else None
    if t is not None and len(t) > 120:
        c[2][1] = t[:60] + "...(%d chars)..." % len(t) + t[-30:]
    return c


def text_len(call):
    inp = call[2]
    if len(inp) > 1 and isinstance(inp[1], str):
        return len(inp[1])
    return 10


def budget_for(call):
    return 400 * text_len(call) + 20000


class Env(object):
    def __init__(self, ctx, init):
        from dateutil import parser
        self.parser_mod = parser
        self.ctx = ctx
        self.clock = simclock.install()
        import sys as _sys
        self.intmax = _sys.get_int_max_str_digits() \
            if hasattr(_sys, "get_int_max_str_digits") else 0
        self.intmax0 = self.intmax
        self.set_tz(init.get("tz"))
        self.clock.t_min = self.clock.t_max = self.clock.t = float(
            init.get("clock", 1e9))
        self.parsers = [parser.parser(parser.parserinfo()),
                        parser.parser(parser.parserinfo(dayfirst=True))]
        # how each explicit parser came to be (for the fresh-process oracle)
        self.parser_info = [
            dict(dayfirst=False, yearfirst=False, clock=self.clock.t,
                 tz=self.tz),
            dict(dayfirst=True, yearfirst=False, clock=self.clock.t,
                 tz=self.tz)]

    def set_tz(self, v):
        import os
        import time
        if v is None:
            os.environ.pop("TZ", None)
        else:
            os.environ["TZ"] = v
        time.tzset()
        self.tz = v

    def world_op(self, op):
        ctx = self.ctx
        if op[0] == "tick":
            self.clock.tick(op[1])
            ctx.probe("clock_tick")
        elif op[0] == "jump":
            self.clock.set(op[1])
            ctx.probe("clock_jump")
        elif op[0] == "set_tz":
            self.set_tz(op[1])
            ctx.probe("set_tz")
        elif op[0] == "decimal":
            import decimal
            c = decimal.getcontext()
            c.prec = op[1]
            c.rounding = getattr(decimal, op[2])
            for sig in (decimal.Rounded, decimal.Inexact, decimal.Subnormal):
                c.traps[sig] = False
            if len(op) > 3 and op[3]:
                # signals the caller has chosen to trap in its own
                # arithmetic
                c.traps[getattr(decimal, op[3])] = True
            ctx.probe("decimal_context_changed")
        elif op[0] == "intmax":
            import sys
            if hasattr(sys, "set_int_max_str_digits"):
                sys.set_int_max_str_digits(op[1])
                self.intmax = op[1]
                ctx.probe("int_max_str_digits_changed")
        elif op[0] == "new_parser":
            P = self.parser_mod
            self.parsers[op[1]] = P.parser(P.parserinfo(dayfirst=op[2],
                                                        yearfirst=op[3]))
            self.parser_info[op[1]] = dict(dayfirst=op[2], yearfirst=op[3],
                                           clock=self.clock.t, tz=self.tz)
        ctx.event("world", op)

    def invoke(self, call):
        """Perform the call; returns outcome list."""
        via, inp, opts = call[1], call[2], call[3]
        kw = {}
        for k, v in opts.items():
            if k == "tzinfos":
                kw[k] = make_tzinfos(v)
            elif k == "default":
                kw[k] = datetime.datetime(*v)
                if opts.get("default_aware"):
                    kw[k] = kw[k].replace(tzinfo=_Brst())
            elif k == "default_aware":
                pass
            else:
                kw[k] = v
        x = make_input(inp, self.ctx)
        if via == "module":
            fn = lambda: self.parser_mod.parse(x, **kw)
        else:
            p = self.parsers[int(via[-1])]
            fn = lambda: p.parse(x, **kw)
        tzi = kw.get("tzinfos")
        before = sorted((k, repr(v)) for k, v in tzi.items()) \
            if hasattr(tzi, "items") else None
        out = outcome_of(fn)
        if before is not None:
            after = sorted((k, repr(v)) for k, v in tzi.items())
            if after != before:
                # "leaves no state behind": the caller's mapping is the
                # caller's
                self.ctx.violation("C14.argument_mutated",
                                   dict(call=short(call), before=before,
                                        after=after))
        return out

    def snapshot(self):
        # (the int<->str digit limit is recorded, NOT restored: like the
        # decimal context it is nothing the outcome may depend on)
        return (self.clock.t, self.tz, self.parsers[0], self.parsers[1],
                self.intmax)

    def restore(self, snap):
        self.clock.t = snap[0]
        if self.tz != snap[1]:
            self.set_tz(snap[1])
        self.parsers[0], self.parsers[1] = snap[2], snap[3]


class Pristine(object):
    """Fresh-process oracle for 'no state is left behind': a child forked
    before the first call of the run keeps the module state of a process
    that has parsed nothing; every question is answered in a grandchild, so
    the server never accumulates state either. The outcome of a call after
    any history must equal its outcome there."""

    def __init__(self):
        import os
        self.os = os
        q_r, q_w = os.pipe()
        a_r, a_w = os.pipe()
        pid = os.fork()
        if pid == 0:
            try:
                os.close(q_w)
                os.close(a_r)
                self._serve(q_r, a_w)
            finally:
                os._exit(0)
        os.close(q_r)
        os.close(a_w)
        self.pid, self.q_w, self.a_r = pid, q_w, a_r

    @staticmethod
    def _read_exact(os, fd, n):
        buf = b""
        while len(buf) < n:
            b = os.read(fd, n - len(buf))
            if not b:
                return None
            buf += b
        return buf

    def _serve(self, q_r, a_w):
        import json
        import struct
        os = self.os
        K.budget = None
        while True:
            hdr = self._read_exact(os, q_r, 4)
            if hdr is None:
                return
            req = json.loads(self._read_exact(
                os, q_r, struct.unpack(">I", hdr)[0]).decode())
            pid = os.fork()
            if pid == 0:
                try:
                    out = self._answer(req)
                    data = json.dumps(out, default=repr).encode()
                    os.write(a_w, struct.pack(">I", len(data)) + data)
                finally:
                    os._exit(0)
            os.waitpid(pid, 0)

    @staticmethod
    def _answer(req):
        class _Ctx(object):
            def fault(self, kind, n=1):
                pass

            def probe(self, name, n=1):
                pass
        env = Env.__new__(Env)
        from dateutil import parser
        env.parser_mod = parser
        env.ctx = _Ctx()
        env.clock = simclock.install()
        env.tz = "<unset>"
        env.parsers = []
        env.parser_info = []
        for info in req["parsers"]:
            env.set_tz(info["tz"])
            env.clock.t = info["clock"]
            env.parsers.append(parser.parser(parser.parserinfo(
                dayfirst=info["dayfirst"], yearfirst=info["yearfirst"])))
        env.set_tz(req["tz"])
        env.clock.t = req["clock"]
        install_warning_recorder()
        try:
            return env.invoke(req["call"])
        except BaseException as e:
            return ["oracle-error", type(e).__name__, str(e)[:200]]

    def ask(self, env, call):
        import json
        import struct
        req = dict(tz=env.tz, clock=env.clock.t, parsers=env.parser_info,
                   call=call)
        data = json.dumps(req).encode()
        self.os.write(self.q_w, struct.pack(">I", len(data)) + data)
        hdr = self._read_exact(self.os, self.a_r, 4)
        if hdr is None:
            raise RuntimeError("pristine oracle died")
        n = struct.unpack(">I", hdr)[0]
        return json.loads(self._read_exact(self.os, self.a_r, n).decode())

    def close(self):
        try:
            self.os.close(self.q_w)
            self.os.close(self.a_r)
            self.os.waitpid(self.pid, 0)
        except OSError:
            pass


CPU_LIMIT = 20.0     # seconds of this process's own CPU time for ONE call


class NotPrompt(BaseException):
    """Raised by the CPU-time watchdog inside a call (BaseException: the
    parser's own ``except Exception`` cannot swallow it)."""


def _on_cpu_limit(signum, frame):
    raise NotPrompt()


def run_call(env, ctx, call, tag, fault_exc=None):
    """The step budget bounds the work done in Python source lines; a call
    that spins inside one C call (a regular expression that backtracks for
    minutes) never reaches another line event. For calls made on the main
    thread a second watchdog therefore counts the process's own CPU time
    (ITIMER_VIRTUAL: independent of how loaded the machine is)."""
    import signal
    import threading
    K.set_budget(budget_for(call))
    s0 = K.steps
    watchdog = threading.current_thread() is threading.main_thread()
    if watchdog:
        signal.signal(signal.SIGVTALRM, _on_cpu_limit)
        signal.setitimer(signal.ITIMER_VIRTUAL, CPU_LIMIT)
    try:
        out = env.invoke(call)
    except BudgetExceeded as e:
        ctx.violation("liveness.budget",
                      dict(call=short(call), msg=str(e),
                           budget=budget_for(call)))
        return None
    except NotPrompt:
        ctx.violation("liveness.cpu_time",
                      dict(call=short(call), cpu_seconds=CPU_LIMIT,
                           note="one call used more CPU time than that "
                                "without reaching another source line"))
        return None
    finally:
        if watchdog:
            signal.setitimer(signal.ITIMER_VIRTUAL, 0)
        K.set_budget(None)
    used = K.steps - s0
    if text_len(call) >= 100:
        ctx.probe("long_digit_run")
    ctx.state(out[0] if out[0] != "exc" else out[1],
              min(used // 500, 20))
    return out


def execute(cls, scenario, ctx):
    import random
    install_warning_recorder()
    env = Env(ctx, scenario["init"])
    if cls in ("calls", "stream"):
        done = []
        classes = set()
        pristine = Pristine()
        asked = 0
        for op in scenario["ops"]:
            if op[0] != "parse":
                env.world_op(op)
                continue
            snap = env.snapshot()
            fexc = None
            if op[2][0] == "faultystream" and op[2][2]["kind"] == "raise_at":
                fexc = op[2][2]["exc"]
            fired0 = ctx.faults.get("stream_raise", 0)
            out = run_call(env, ctx, op, "first", fexc)
            if out is None:
                continue
            ctx.checks += 1
            if ctx.faults.get("stream_raise", 0) > fired0 and \
                    out[0] in ("dt", "dt+tokens"):
                # the stream failed in the middle of the text and a datetime
                # came back all the same: built from a prefix of the input
                ctx.violation("C14.stream_error_swallowed",
                              dict(call=short(op), outcome=out[:3],
                                   fault=op[2][2]))
            classify(ctx, op, out, text_len(op), fexc)
            ctx.event("call", short(op), out[:3])
            if any(ord(c) > 127 and c.isdigit() for c in
                   (op[2][1] if len(op[2]) > 1 and isinstance(op[2][1], str)
                    else "")):
                ctx.probe("unicode_digit")
            classes.add(out[0] if out[0] != "exc" else out[1])
            done.append((op, snap, out))
            # (c') the same call in a process that has parsed nothing
            if asked < 8 and (len(done) % 3 == 0 or len(done) > 4):
                asked += 1
                fresh = pristine.ask(env, op)
                ctx.checks += 1
                if fresh and fresh[0] == "oracle-error":
                    raise RuntimeError("pristine oracle: %r" % (fresh,))
                if fresh != _plain(out):
                    ctx.violation("C14.depends_on_history",
                                  dict(call=short(op), here=out[:3],
                                       fresh_process=fresh[:3],
                                       int_limit=[env.intmax, env.intmax0],
                                       digit_run=longest_digit_run(op)))
                else:
                    ctx.probe("fresh_process_identical")
        pristine.close()
        # (c) determinism / no residue: repeat everything in another order
        order = list(range(len(done)))
        random.Random(scenario.get("repeat_seed", 0)).shuffle(order)
        for i in order:
            op, snap, out = done[i]
            env.restore(snap)
            again = run_call(env, ctx, op, "repeat")
            if again is None:
                continue
            ctx.checks += 1
            if again != out:
                ctx.violation("C14.not_deterministic",
                              dict(call=short(op), first=out[:3],
                                   again=again[:3],
                                   int_limit=[snap[4], env.intmax],
                                   digit_run=longest_digit_run(op)))
            else:
                ctx.probe("repeat_identical")
            # the outcome is a function of the TEXT: the same characters
            # handed over as a text stream and as a str give the same
            # datetime / tokens / exception type (the message quotes the
            # input object and may differ)
            form_ok = op[2][0] in ("stringio", "charstream", "shortstream")
            if op[2][0] in ("bytes", "bytearray"):
                # bytes are UTF-8 text: comparable when they decode strictly
                try:
                    op[2][1].encode("utf-8")
                    form_ok = True
                except UnicodeEncodeError:
                    pass
            if form_ok and i % 2 == 0:
                twin = _copy.deepcopy(op)
                twin[2] = ["str", op[2][1]]
                env.restore(snap)
                t = run_call(env, ctx, twin, "as-str")
                if t is None:
                    continue
                ctx.checks += 1
                same = t[:2] == out[:2] if out[0] == "exc" else t == out
                if not same:
                    ctx.violation("C14.depends_on_input_form",
                                  dict(call=short(op), as_stream=out[:3],
                                       as_str=t[:3],
                                       int_limit=[snap[4], env.intmax],
                                       digit_run=longest_digit_run(op)))
                else:
                    ctx.probe("stream_and_str_identical")
        ctx.sim_clock_span = env.clock.span()
        if (len(done) >= 3 and len(classes) >= 2) or ctx.faults:
            ctx.nontrivial = True
        return
    # threads ------------------------------------------------------------
    st = scenario["sched"]
    nops = sum(len(p) for p in scenario["threads"])
    maxb = sum(budget_for(c) for p in scenario["threads"] for c in p)
    sched = Scheduler(st["strategy"], st.get("seed", 0), tape=st.get("tape"),
                      max_steps=maxb + 10000)
    results = {}

    for ti, prog in enumerate(scenario["threads"]):
        def body(ti=ti, prog=prog):
            for ci, call in enumerate(prog):
                out = env.invoke(call)
                with K.mute():
                    results[(ti, ci)] = out
                    ctx.checks += 1
                    classify(ctx, call, out, text_len(call))
                    ctx.event("T%d" % ti, short(call), out[:3])
        sched.spawn(body, "T%d" % ti)
    try:
        sched.run()
    finally:
        ctx.sched_summary = sched.summary()
    ctx.fault("preemption", sched.preemptions)
    # sequential reference after the fact: the same calls, one at a time
    for (ti, ci), out in sorted(results.items()):
        call = scenario["threads"][ti][ci]
        ref = run_call(env, ctx, call, "sequential")
        if ref is None:
            continue
        ctx.checks += 1
        if ref != out:
            ctx.violation("C14.thread_outcome_differs",
                          dict(call=short(call), concurrent=out[:3],
                               sequential=ref[:3]))
        else:
            ctx.probe("repeat_identical")
    if sched.switches >= 1:
        ctx.nontrivial = True
