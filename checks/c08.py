"""C08 — tzstr, tzrange and tzlocal implement POSIX TZ rule semantics, under
every history of process-TZ reconfigurations.

One class: a generated history interleaves real process-TZ changes
(os.environ['TZ'] + time.tzset(): glibc is real code) with construction of
tzlocal() / tzstr(s) / tzstr(s, posix_offset=True) / the equivalent tzrange /
gettz(s), and with queries at UTC instants. Every answer is compared with an
independent POSIX model and with glibc consulted under the same setting.
"""
import copy as _copy
import datetime
import os
import re as _re
import time

from dsim.kernel import K, Deadlock, BudgetExceeded
from models import posixtz as PX

PROPERTY = "C08"
SRC_DIR = None
LEVEL_TEXT = (
    "Seeded search over process-TZ configuration histories: real "
    "os.environ['TZ'] + tzset() events are interleaved with construction of "
    "tzlocal(), tzstr (both sign conventions), the equivalent tzrange and "
    "gettz(s) and with queries, so that stale capture (tzlocal reads offsets "
    "when built but the C library when queried) and caching of "
    "environment-dependent zones are reachable; a tzlocal is judged only "
    "while the setting it was built under is in force. Each answer (offset, "
    "abbreviation, dst) is compared three ways: dateutil zone, an "
    "independent POSIX rule model, and glibc localtime under the same "
    "setting, at every yearly transition +-1 s/+-30 min/+-1 day and random "
    "instants of four years incl. leap years, both hemispheres. Also: no-DST "
    "strings, GMT+h sign rule, malformed strings. Rule arithmetic is input "
    "sampling and is reported as such."
    " Session 3 added: one-aspect sibling specifications in one run, zones built inside threads from valid and malformed strings (shared TZ-string parser), standard zones named GMT/UTC with daylight rules judged by dateutil's documented non-POSIX reading, calendar.firstweekday() configuration events, years 1971-2400, fourteen malformed-string shapes incl. non-ASCII letters.")
LEVEL_NOTE = (
    "Trusted: the POSIX model (models/posixtz.py, cross-checked against glibc "
    "in every run) and glibc itself; rule domain as the property restricts it "
    "(start and end at least a month apart and away from the year boundary; "
    "names of 3-5 letters; times 0-24 h, which in standard time may fall "
    "outside the day: the equivalent tzrange is built for those too).")
TECHNIQUE = ("deterministic simulation of process-TZ configuration histories "
             "(real tzset); three-way oracle: POSIX model, glibc, dateutil")
RULE = ("one evaluation = one generated history of TZ settings, zone "
        "constructions and queries over a pool of generated rule "
        "specifications; non-trivial = at least two different TZ settings in "
        "force during the run, at least one tzlocal built, and at least 20 "
        "judged answers; distinct = distinct SHA-1 of the full event history")
EXPECTED_PROBES = ["tzlocal_judged", "tzlocal_stale_not_judged",
                   "southern_hemisphere", "half_hour_saving",
                   "two_hour_saving", "rule.J", "rule.N", "rule.M5",
                   "rule_time_24", "malformed_rejected", "gmt_plus",
                   "no_dst_fixed", "glibc_consulted", "far_year_model_only",
                   "gmt_named_with_dst_rules"]

REAL = ['dateutil.tz tzstr/tzrange/tzlocal/gettz, the TZ-string parser, relativedelta from /repo/src', "glibc tzset/localtime under the real TZ environment variable (second oracle and tzlocal's back end)", 'real OS threads in the threads class']
STUB = ['the sequence of process reconfigurations (generated)', 'thread scheduling in the threads class', 'locks (SimLock) of the tzstr factory']

CLASSES = {
    "config": dict(quick=25000, thorough=600000, timeout=120),
    # zone objects (tzstr instances are shared process-wide by their factory)
    # queried concurrently from 2-3 threads at instants of different years
    "threads": dict(quick=2500, thorough=60000, timeout=120),
}


def TARGET_FILES(cls):
    if cls == "threads":
        return ["tz/tz.py", "tz/_common.py", "tz/_factories.py",
                "parser/_parser.py"]
    return ["tz/tz.py", "tz/_common.py"]


# ---------------------------------------------------------------------------
# known finding D6
# ---------------------------------------------------------------------------

def _pred_rule_time_outside_day(scenario, invariant, detail):
    """tzstr (also through gettz) with a rule whose time of day, converted to
    local standard time, falls outside [0, 24h): end time smaller than the
    saving, or a time of 24:00. Computed from the TZ specification alone."""
    return bool(detail.get("rule_time_outside_day")) and \
        detail.get("zone_kind") in ("tzstr", "tzstr_posix", "gettz")


KNOWN_PREDICATES = {"rule_time_outside_day": _pred_rule_time_outside_day}


# ---------------------------------------------------------------------------
# generation
# ---------------------------------------------------------------------------

KINDS = ["tzlocal", "tzlocal", "tzstr", "tzstr", "tzstr_posix", "tzrange",
         "gettz"]


def generate(cls, rng):
    if cls == "threads":
        spec = PX.gen_spec(rng)
        fmt = dict(always_time=rng.random() < 0.3, explicit_dstoff=None)
        kinds = [rng.choice(["tzstr", "tzstr", "tzrange", "tzlocal", "gettz"])
                 for _ in range(rng.choice([1, 1, 2]))]
        threads = []
        builds = rng.random() < 0.5
        sib = PX.gen_sibling(rng, spec) if rng.random() < 0.7 \
            else PX.gen_spec(rng)
        for _ in range(rng.choice([2, 2, 3])):
            prog = []
            for _ in range(rng.randrange(2, 7)):
                when = [rng.choice(YEARS),
                        rng.choice(["start", "end"]),
                        rng.choice([-86400, -1800, -1, 0, 1, 1800, 86400, -0.5, -0.000001,
                                    0.25, 15, 31, 46,
                                    rng.randrange(-10 ** 7, 10 ** 7)])]
                if builds and rng.random() < 0.6:
                    # a zone constructed inside the thread (the TZ-string
                    # parser and the factories are shared by all threads),
                    # from a valid string or a malformed variant of it
                    prog.append(["build",
                                 rng.choice(["instance", "instance", "tzstr",
                                             "nocache"]),
                                 rng.randrange(2),
                                 rng.choice(["valid", "valid", "valid",
                                             "surplus_rule", "missing_end",
                                             "short_m", "hash"])] + when)
                else:
                    prog.append(["query", rng.randrange(len(kinds))] + when)
            threads.append(prog)
        kind = rng.choice(["random", "random", "pb", "pct", "pbx", "pbx"])
        if kind == "random":
            strat = dict(kind="random", p=rng.choice([0.02, 0.1, 0.3, 1.0]))
        elif kind == "pbx":
            strat = dict(kind="pbx", k=rng.choice([1, 1, 2, 3]))
        elif kind == "pb":
            strat = dict(kind="pb", k=rng.choice([1, 2, 3]),
                         horizon=rng.choice([200, 1000, 4000]))
        else:
            strat = dict(kind="pct", d=rng.choice([2, 3, 4]),
                         horizon=rng.choice([200, 1000, 4000]))
        return dict(specs=[spec, sib], fmt=[fmt, dict(fmt)], kinds=kinds,
                    threads=threads, builds=builds,
                    fwd=rng.choice([0, 0, 0, 6, 3]),
                    sched=dict(strategy=strat, seed=rng.getrandbits(32)))
    specs = [PX.gen_spec(rng, gmt_p=0.08)
             for _ in range(rng.choice([1, 2, 2, 3]))]
    if rng.random() < 0.5:
        # one-aspect variants of the first specification: zones built from
        # them must not share anything that depends on the differing aspect
        for _ in range(rng.choice([1, 1, 2])):
            specs.append(PX.gen_sibling(rng, specs[0]))
    if rng.random() < 0.3:
        specs.append(PX.gen_spec(rng, with_dst=False))
    fmt = [dict(always_time=rng.random() < 0.3,
                explicit_dstoff=None if s["std"] in ("GMT", "UTC")
                else rng.choice([None, None, True]))
           for s in specs]
    ops = [["set_tz", rng.randrange(len(specs))]]
    handles = 0
    from dsim import depth as DP
    for _ in range(rng.randrange(15, DP.pick(70, 200))):
        r = rng.random()
        if r < 0.12:
            ops.append(["set_tz", rng.choice([None] +
                                             list(range(len(specs))))])
        elif r < 0.135 and len(specs) > 1:
            # the TZ variable is changed WITHOUT tzset() (the C library keeps
            # its setting), and another tzlocal is built: a local zone built
            # earlier goes on answering for the setting still in force
            ops.append(["setenv_only", rng.randrange(len(specs)),
                        rng.choice([2000, 2023, 2024])])
        elif r < 0.40 or handles == 0:
            ops.append(["make", "h%d" % handles, rng.choice(KINDS),
                        rng.randrange(len(specs))])
            handles += 1
        elif r < 0.88:
            ops.append(["query", "h%d" % rng.randrange(handles),
                        rng.choice(FAR_YEARS) if rng.random() < 0.07
                        else rng.choice(YEARS),
                        rng.choice(["start", "end"]),
                        rng.choice([-86400, -1800, -1, 0, 1, 1800, 86400, -0.5, -0.000001,
                                    0.25, 15, 31, 46,
                                    rng.randrange(-10 ** 7, 10 ** 7)])])
        elif r < 0.93:
            ops.append(["malformed", rng.randrange(len(specs)),
                        rng.choice(["surplus_rule", "missing_end", "at_sign",
                                    "bad_letter", "short_m", "hash",
                                    "space", "double_comma", "trailing_slash",
                                    "empty_time", "lower_rule", "two_signs",
                                    "leading_digit", "dot_offset",
                                    "unicode_letter", "unicode_letter2",
                                    "time_four_fields", "no_std", "no_std"])])
        elif r < 0.945:
            # an abbreviation and nothing else (the offset is missing): to
            # be refused, or read as that name at offset 0 -- nothing else
            ops.append(["name_only", rng.choice(["UTC", "GMT", "EST", "WET",
                                                 "XYZT"])])
        elif r < 0.97:
            ops.append(["gmt_plus", rng.choice(["GMT", "UTC"]),
                        rng.choice([-11, -3, 1, 3, 9]), rng.random() < 0.5])
        else:
            ops.append(["sweep", "h%d" % rng.randrange(handles),
                        rng.choice([2023, 2024])])
    # calendar.setfirstweekday() is process-wide configuration a rule
    # resolver might consult; POSIX rules do not depend on it
    fwd = rng.choice([0, 0, 0, 6, rng.randrange(7)])
    if fwd or rng.random() < 0.2:
        for _ in range(rng.choice([1, 2])):
            ops.insert(rng.randrange(1, len(ops) + 1),
                       ["firstweekday", rng.randrange(7)])
    return dict(specs=specs, fmt=fmt, ops=ops, fwd=fwd)


# ---------------------------------------------------------------------------
# execution
# ---------------------------------------------------------------------------

def set_env(v):
    if v is None:
        os.environ.pop("TZ", None)
    else:
        os.environ["TZ"] = v
    time.tzset()


def to_rd(rule, t):
    from dateutil import relativedelta as rd
    kw = dict(seconds=t)
    if rule[0] == "M":
        _, m, w, d, _t = rule
        pyd = (d - 1) % 7
        kw["month"] = m
        if w == 5:
            kw["day"] = 31
            kw["weekday"] = rd.weekday(pyd, -1)
        else:
            kw["day"] = 1
            kw["weekday"] = rd.weekday(pyd, +w)
    elif rule[0] == "J":
        kw["nlyearday"] = rule[1]
    else:
        kw["yearday"] = rule[1] + 1
    return rd.relativedelta(**kw)


class Env(object):
    def __init__(self, ctx, scenario):
        from dateutil import tz
        self.tz = tz
        self.ctx = ctx
        self.specs = scenario["specs"]
        self.strings = [PX.tz_string(s, **f) for s, f in
                        zip(scenario["specs"], scenario["fmt"])]
        self.cur = None          # index of the spec in force, or None
        self.handles = {}
        self.settings_seen = set()
        set_env(None)
        for s in self.specs:
            if s.get("dst"):
                sav = s["dstoff"] - s["stdoff"]
                if sav == 1800:
                    ctx.probe("half_hour_saving")
                if sav == 7200:
                    ctx.probe("two_hour_saving")
                a, b = PX.transitions_utc(s, 2023)
                if a > b:
                    ctx.probe("southern_hemisphere")
                for r in (s["start"], s["end"]):
                    if r[0] in ("J", "N"):
                        ctx.probe("rule." + r[0])
                    elif r[2] == 5:
                        ctx.probe("rule.M5")
                    if r[-1] == 86400:
                        ctx.probe("rule_time_24")

    def glibc_at(self, i, ts):
        """Ask glibc under setting i, then restore the setting in force."""
        self.ctx.probe("glibc_consulted")
        set_env(self.strings[i])
        try:
            lt = time.localtime(ts)
            return (lt.tm_gmtoff, lt.tm_zone, lt.tm_isdst > 0)
        finally:
            set_env(None if self.cur is None else self.strings[self.cur])

    def make(self, kind, i):
        tz = self.tz
        spec = self.specs[i]
        s = self.strings[i]
        if kind == "tzlocal":
            if self.cur is None:
                return None
            return tz.tzlocal()
        if kind == "tzstr":
            return tz.tzstr(s)
        if kind == "tzstr_posix":
            return tz.tzstr(s, posix_offset=True)
        if kind == "gettz":
            return tz.gettz(s)
        if kind == "tzrange":
            if not spec.get("dst"):
                return tz.tzrange(spec["std"], spec["stdoff"])
            sav = spec["dstoff"] - spec["stdoff"]
            so, do = spec["stdoff"], spec["dstoff"]
            # each offset may be given as timedelta or as seconds,
            # independently of the other
            if (so + do) % 7 in (0, 1):
                so = datetime.timedelta(seconds=so)
            if (so if isinstance(so, int) else 0) % 5 == 0 or \
                    (spec["stdoff"] + do) % 7 == 0:
                do = datetime.timedelta(seconds=do)
            return tz.tzrange(spec["std"], so, spec["dst"], do,
                              start=to_rd(spec["start"], spec["start"][-1]),
                              end=to_rd(spec["end"], spec["end"][-1] - sav))
        raise ValueError(kind)


def observe(zone, ts):
    from dateutil import tz
    d = (datetime.datetime(1970, 1, 1) + datetime.timedelta(seconds=ts)
         ).replace(tzinfo=tz.UTC).astimezone(zone)
    off, dst = d.utcoffset(), d.dst()
    return (int(off.total_seconds()), d.tzname(),
            None if dst is None else int(dst.total_seconds()))


def judge(env, ctx, h, ts):
    """Compare the zone's answer at UTC instant ts with model and glibc."""
    zone, kind, i, built_under = env.handles[h]
    spec = env.specs[i]
    if kind == "tzlocal":
        if env.cur != built_under:
            # stale: the process was reconfigured after this object was
            # built; the property says nothing about it. Still queried.
            ctx.probe("tzlocal_stale_not_judged")
            try:
                observe(zone, ts)
            except Exception:
                pass
            return False
        ctx.probe("tzlocal_judged")
    flipped = False
    if kind in ("tzstr", "gettz"):
        # dateutil's own (non-POSIX) reading of GMT+h / UTC+h
        rd = PX.dateutil_reading(spec)
        if rd is None:
            ctx.probe("gmt_named_explicit_dst_not_judged")
            return False
        if rd is not spec:
            flipped = True
            ctx.probe("gmt_named_with_dst_rules" if spec.get("dst")
                      else "gmt_named_fixed")
            spec = rd
    want = PX.at(spec, ts)
    far = not (GLIBC_LO <= ts < GLIBC_HI)
    glibc = want if (flipped or far) else env.glibc_at(i, ts)
    if glibc != want:
        # the two oracles disagree: the harness, not dateutil, is at fault
        raise RuntimeError("POSIX model and glibc disagree for %r at %d: "
                           "%r vs %r" % (env.strings[i], ts, want, glibc))
    try:
        got = observe(zone, ts)
    except (Deadlock, BudgetExceeded):
        raise
    except Exception as e:
        ctx.violation("C08.query_raises",
                      dict(tz=env.strings[i], zone_kind=kind, ts=ts,
                           exc=type(e).__name__, msg=str(e)[:160]))
        return True
    ctx.checks += 1
    off, abbr, isdst = want
    sav = (spec["dstoff"] - spec["stdoff"]) if spec.get("dst") else 0
    want_dst = sav if isdst else 0
    ok = got[0] == off and got[1] == abbr and got[2] == want_dst
    ctx.event("query", h, kind, ts, got)
    if not ok:
        ctx.violation("C08.wrong_answer",
                      dict(tz=env.strings[i], zone_kind=kind, ts=ts,
                           got=got, want=[off, abbr, want_dst],
                           glibc=list(glibc),
                           rule_time_outside_day=not
                           PX.rule_times_in_day(spec)))
    return True


# years the zones are questioned in: leap, common and century years, both
# sides of 2038 and of 2100 (not a leap year). Not before 1970: glibc applies
# no daylight rule of a TZ string to years before the epoch (checked), so the
# three-way comparison has no libc side there.
YEARS = [1999, 2000, 2023, 2024, 1999, 2000, 2023, 2024, 1971, 1972, 2037,
         2038, 2099, 2100, 2101, 2104, 2200, 2400, 2004, 2032]

# the first and last representable years, and years before the epoch: the
# POSIX model alone is the oracle there (a TZ string's rules apply to every
# year; libc has its own reading before 1970). Instants are kept three days
# inside the representable range so that every local reading exists.
FAR_YEARS = [1, 1, 2, 4, 1582, 1600, 1900, 1969, 9996, 9998, 9999, 9999]
_E = datetime.datetime(1970, 1, 1)
FAR_LO = int((datetime.datetime(1, 1, 4) - _E).total_seconds())
FAR_HI = int((datetime.datetime(9999, 12, 28) - _E).total_seconds())
GLIBC_LO = int((datetime.datetime(1971, 1, 1) - _E).total_seconds())
GLIBC_HI = int((datetime.datetime(2401, 1, 1) - _E).total_seconds())

MALFORMERS = {
    "surplus_rule": lambda s: s + ",M1.1.0",
    "missing_end": lambda s: s.rsplit(",", 1)[0],
    "at_sign": lambda s: s[:len(s) // 2] + "@" + s[len(s) // 2:],
    "hash": lambda s: s + "#",
    "bad_letter": lambda s: s.replace(",M", ",Q", 1) if ",M" in s
    else s.replace(",J", ",Q", 1) if ",J" in s else s + ",Q3",
    "short_m": lambda s: s.split(",")[0] + ",M3.2,M11.1.0",
    "space": lambda s: s[:3] + " " + s[3:],
    # (each of the following was checked to be rejected by the unchanged
    # tree for 6 000 generated specifications before it was added)
    "double_comma": lambda s: s.replace(",", ",,", 1) if "," in s
    else s + ",,",
    "trailing_slash": lambda s: s + "/",
    "empty_time": lambda s: s.replace(",", "/,", 1) if "," in s else s + "/",
    "lower_rule": lambda s: s.replace(",M", ",m", 1) if ",M" in s
    else s + ",m3.2.0",
    "two_signs": lambda s: _re.sub(r"^([A-Za-z]+)[+-]?", r"\1+-", s, count=1),
    "leading_digit": lambda s: "5" + s,
    # a letter outside a-z/A-Z inside an abbreviation
    # a rule time with a surplus ':' field
    "time_four_fields": lambda s: (s.rsplit("/", 1)[0] if "/" in
                                   s.rsplit(",", 1)[-1] else s) +
    "/2:00:00:30" if "," in s else s + ",M3.2.0/2:00:00:30,M11.1.0",
    "unicode_letter": lambda s: s[:1] + "\u00c9" + s[1:],
    "unicode_letter2": lambda s: s[:2] + "\u6771" + s[2:],
    "dot_offset": lambda s: _re.sub(r"([0-9]+)", r"\1.5", s, count=1),
    # the standard part (name and offset) is missing altogether
    # (the EMPTY string is not malformed: it is GNU's spelling of UTC and
    # tzstr('') is pinned by the repository's own tests)
    "no_std": lambda s: s[s.index(","):] if "," in s else ",M3.2.0,M11.1.0",
}


def thread_build(env, ctx, op, who):
    """Construct a zone inside a thread and judge it (valid string), or
    expect ValueError (malformed variant)."""
    from dsim.kernel import SimBaseException
    _, how, si, variant, year, which, delta = op
    si %= len(env.specs)
    spec = env.specs[si]
    s = env.strings[si]
    if variant != "valid":
        if how == "nocache" or (not spec.get("dst") and variant in (
                "missing_end", "short_m")):
            variant = "valid"
        else:
            s = MALFORMERS[variant](s)
    tz = env.tz
    try:
        if how == "instance":
            z = tz.tzstr.instance(s)
        elif how == "tzstr":
            z = tz.tzstr(s)
        else:
            z = tz.gettz.nocache(s)
        if variant == "valid":
            if spec.get("dst"):
                a, b = PX.transitions_utc(spec, year)
                ts = (a if which == "start" else b) + delta
            else:
                ts = 1700000000 + delta
            got = observe(z, ts)
    except (Deadlock, BudgetExceeded):
        raise
    except Exception as e:
        if isinstance(e, SimBaseException):
            raise
        with K.mute():
            ctx.event(who, "build", how, s, type(e).__name__)
            if variant != "valid" and isinstance(e, ValueError):
                ctx.probe("thread_malformed_rejected")
                return
            ctx.violation("C08.construct_raises" if variant == "valid"
                          else "C08.malformed_other_exception",
                          dict(tz=s, zone_kind=how, exc=type(e).__name__,
                               msg=str(e)[:160], task=who))
        return
    with K.mute():
        ctx.checks += 1
        ctx.probe("thread_built_zone")
        if variant != "valid":
            ctx.violation("C08.malformed_accepted",
                          dict(text=s, how=variant, got=repr(z), task=who))
            return
        off, abbr, isdst = PX.at(spec, ts)
        sav = (spec["dstoff"] - spec["stdoff"]) if spec.get("dst") else 0
        want = (off, abbr, sav if isdst else 0)
        ctx.event(who, "build", how, s, ts, got)
        if tuple(got) != want:
            ctx.violation("C08.wrong_answer",
                          dict(tz=s, zone_kind=how, ts=ts, got=got,
                               want=list(want), task=who,
                               built_in_thread=True))


def execute_threads(scenario, ctx):
    from dsim.kernel import Scheduler, SimBaseException
    env = Env(ctx, scenario)
    spec = env.specs[0]
    env.cur = 0
    set_env(env.strings[0])
    zones = []
    for kind in scenario["kinds"]:
        z = env.make(kind, 0)
        if z is None:
            z = env.make("tzstr", 0)
            kind = "tzstr"
        zones.append((z, kind))
    st = scenario["sched"]
    sched = Scheduler(st["strategy"], st.get("seed", 0), tape=st.get("tape"),
                      max_steps=3000000)
    sav = spec["dstoff"] - spec["stdoff"]
    for ti, prog in enumerate(scenario["threads"]):
        def body(ti=ti, prog=prog):
            for op in prog:
                if op[0] == "build":
                    thread_build(env, ctx, op, "T%d" % ti)
                    continue
                _, zi, year, which, delta = op
                zone, kind = zones[zi % len(zones)]
                a, b = PX.transitions_utc(spec, year)
                ts = (a if which == "start" else b) + delta
                try:
                    got = observe(zone, ts)
                except (Deadlock, BudgetExceeded):
                    raise
                except Exception as e:
                    if isinstance(e, SimBaseException):
                        raise
                    with K.mute():
                        ctx.violation("C08.query_raises",
                                      dict(tz=env.strings[0], zone_kind=kind,
                                           ts=ts, exc=type(e).__name__,
                                           msg=str(e)[:160], task="T%d" % ti))
                    continue
                with K.mute():
                    off, abbr, isdst = PX.at(spec, ts)
                    want = (off, abbr, sav if isdst else 0)
                    ctx.checks += 1
                    ctx.event("T%d" % ti, kind, ts, got)
                    if tuple(got) != want:
                        ctx.violation(
                            "C08.wrong_answer",
                            dict(tz=env.strings[0], zone_kind=kind, ts=ts,
                                 got=got, want=list(want), task="T%d" % ti,
                                 rule_time_outside_day=not
                                 PX.rule_times_in_day(spec)))
        sched.spawn(body, "T%d" % ti)
    try:
        sched.run()
    finally:
        ctx.sched_summary = sched.summary()
        set_env(None)
    ctx.fault("preemption", sched.preemptions)
    if sched.switches:
        ctx.nontrivial = True


def execute(cls, scenario, ctx):
    import calendar
    import warnings
    warnings.simplefilter("ignore")
    calendar.setfirstweekday(scenario.get("fwd", 0) % 7)
    if cls == "threads":
        return execute_threads(scenario, ctx)
    env = Env(ctx, scenario)
    judged = 0
    made_local = 0
    K.set_budget(20000000)
    try:
        for op in scenario["ops"]:
            k = op[0]
            if k == "firstweekday":
                calendar.setfirstweekday(op[1] % 7)
                ctx.event("firstweekday", op[1] % 7)
                ctx.probe("calendar_firstweekday_changed")
            elif k == "set_tz":
                env.cur = op[1]
                set_env(None if op[1] is None else env.strings[op[1]])
                env.settings_seen.add(op[1])
                ctx.event("set_tz", None if op[1] is None
                          else env.strings[op[1]])
            elif k == "setenv_only":
                _, j, year = op
                if env.cur is None or j == env.cur:
                    continue
                spec = env.specs[env.cur]
                try:
                    z_old = env.tz.tzlocal()
                    os.environ["TZ"] = env.strings[j]     # no tzset()
                    env.tz.tzlocal()
                    if spec.get("dst"):
                        a, b = PX.transitions_utc(spec, year)
                        probes = [a - 3600, a + 3600, b - 3600, b + 3600,
                                  (a + b) // 2]
                    else:
                        probes = [1700000000, 1689000000]
                    got = [observe(z_old, t) for t in probes]
                finally:
                    set_env(env.strings[env.cur])
                ctx.probe("tz_variable_changed_without_tzset")
                for t, g in zip(probes, got):
                    off, abbr, isdst = PX.at(spec, t)
                    sav = (spec["dstoff"] - spec["stdoff"]) \
                        if spec.get("dst") else 0
                    ctx.checks += 1
                    if (g[0], g[1], g[2]) != (off, abbr,
                                              sav if isdst else 0):
                        ctx.violation(
                            "C08.wrong_answer",
                            dict(tz=env.strings[env.cur], zone_kind="tzlocal",
                                 ts=t, got=g, want=[off, abbr,
                                                    sav if isdst else 0],
                                 note="TZ variable changed to %r without "
                                      "tzset(), another tzlocal built" %
                                      env.strings[j]))
            elif k == "make":
                _, h, kind, i = op
                if kind == "tzlocal" and env.cur is not None:
                    i = env.cur      # a local zone is the setting in force
                try:
                    z = env.make(kind, i)
                except (Deadlock, BudgetExceeded):
                    raise
                except Exception as e:
                    ctx.violation("C08.construct_raises",
                                  dict(tz=env.strings[i], zone_kind=kind,
                                       exc=type(e).__name__,
                                       msg=str(e)[:160]))
                    continue
                if z is None:
                    continue
                if kind == "tzlocal":
                    made_local += 1
                env.handles[h] = (z, kind, i, env.cur)
                ctx.event("make", h, kind, env.strings[i])
                ctx.state("make", kind, env.cur == i)
            elif k == "query":
                _, h, year, which, delta = op
                if h not in env.handles:
                    continue
                spec = env.specs[env.handles[h][2]]
                if env.handles[h][1] in ("tzstr", "gettz"):
                    spec = PX.dateutil_reading(spec) or spec
                if spec.get("dst"):
                    try:
                        a, b = PX.transitions_utc(spec, year)
                    except OverflowError:
                        continue      # rule instant beyond the last year
                    ts = (a if which == "start" else b) + delta
                else:
                    ts = int((datetime.datetime(year, 6, 1) -
                              datetime.datetime(1970, 1, 1)).total_seconds()
                             ) + delta
                    ctx.probe("no_dst_fixed")
                if year in FAR_YEARS:
                    if env.handles[h][1] == "tzlocal":
                        continue      # libc's reading: not before 1970
                    ts = min(max(ts, FAR_LO), FAR_HI)
                    ctx.probe("far_year_model_only")
                if judge(env, ctx, h, ts):
                    judged += 1
                ctx.state("query", env.handles[h][1], which,
                          min(abs(delta), 86400))
            elif k == "sweep":
                _, h, year = op
                if h not in env.handles:
                    continue
                spec = env.specs[env.handles[h][2]]
                if env.handles[h][1] in ("tzstr", "gettz"):
                    spec = PX.dateutil_reading(spec) or spec
                if not spec.get("dst"):
                    continue
                a, b = PX.transitions_utc(spec, year)
                for base in (a, b):
                    for d in (-3600, -1, 0, 1, 3600):
                        if judge(env, ctx, h, base + d):
                            judged += 1
            elif k == "malformed":
                _, i, how = op
                s = env.strings[i]
                if not env.specs[i].get("dst") and how in ("missing_end",
                                                           "short_m",
                                                           "bad_letter"):
                    continue
                bad = MALFORMERS[how](s)
                ctx.checks += 1
                try:
                    z = env.tz.tzstr(bad)
                except ValueError:
                    ctx.probe("malformed_rejected")
                    ctx.event("malformed", bad, "ValueError")
                except (Deadlock, BudgetExceeded):
                    raise
                except Exception as e:
                    ctx.violation("C08.malformed_other_exception",
                                  dict(text=bad, how=how,
                                       exc=type(e).__name__,
                                       msg=str(e)[:160]))
                else:
                    ctx.violation("C08.malformed_accepted",
                                  dict(text=bad, how=how, got=repr(z)))
            elif k == "name_only":
                text = op[1]
                ctx.checks += 1
                try:
                    z = env.tz.tzstr(text)
                    got = [observe(z, t) for t in (1700000000, 1689000000)]
                except ValueError:
                    ctx.probe("name_only_refused")
                except (Deadlock, BudgetExceeded):
                    raise
                except Exception as e:
                    ctx.violation("C08.construct_raises",
                                  dict(tz=text, zone_kind="tzstr",
                                       exc=type(e).__name__,
                                       msg=str(e)[:160]))
                else:
                    ctx.probe("name_only_fixed_zero")
                    if any(g[0] != 0 or g[1] != text or g[2] not in (0, None)
                           for g in got):
                        ctx.violation("C08.wrong_answer",
                                      dict(tz=text, zone_kind="tzstr",
                                           got=got, want=[0, text, 0]))
            elif k == "gmt_plus":
                _, word, hh, posix = op
                text = "%s%+d" % (word, hh)
                ctx.checks += 1
                ctx.probe("gmt_plus")
                try:
                    z = env.tz.tzstr(text, posix_offset=True) if posix \
                        else env.tz.tzstr(text)
                    got = observe(z, 1700000000)
                except Exception as e:
                    ctx.violation("C08.gmt_plus_raises",
                                  dict(text=text, exc=type(e).__name__))
                    continue
                want = (-hh if posix else hh) * 3600
                ctx.event("gmt_plus", text, posix, got)
                if got[0] != want or got[2] not in (0, None):
                    ctx.violation("C08.gmt_plus_sign",
                                  dict(text=text, posix_offset=posix,
                                       got=got, want=want))
    except BudgetExceeded as e:
        ctx.violation("liveness.budget", dict(msg=str(e)))
    finally:
        K.set_budget(None)
        set_env(None)
    if len(env.settings_seen) >= 2 and made_local and judged >= 20:
        ctx.nontrivial = True


def simplify(cls, scenario):
    for i, f in enumerate(scenario["fmt"]):
        if f.get("always_time") or f.get("explicit_dstoff"):
            c = _copy.deepcopy(scenario)
            c["fmt"][i] = dict(always_time=False, explicit_dstoff=None)
            yield c
