"""C02 — parse() inverts every supported unambiguous rendering, under every
process-TZ setting, clock value and call history.

Classes
  config   one thread: generated history of process-TZ changes, simulated
           clock ticks/jumps (year and century boundaries), construction of
           parsers under the simulated clock, and parse() of rendered
           datetimes (str / bytes / stream; module function / explicit
           parser; default given or taken from the clock); the same text is
           re-parsed later under a different configuration
  threads  2-3 threads parse renderings through the shared default parser
"""
import calendar
import datetime
import io
import os
import time

from dsim.kernel import K, Scheduler, Deadlock, BudgetExceeded
from dsim import simclock
from models import render as R

PROPERTY = "C02"
SRC_DIR = None
KNOWN_PREDICATES = {}
LEVEL_TEXT = (
    "Seeded search over configuration histories: the process time zone (real "
    "TZ + tzset), the simulated wall clock (incl. one second around year and "
    "century ends, which moves the two-digit-year pivot captured when a "
    "parser is built) and the call history are driven by generated events "
    "while ~40 rendering templates x offsets -23:59..+23:59 x input forms are "
    "parsed through the module function and explicit parsers; every result "
    "must equal the renderer's exact inverse and the same text must give the "
    "same result under every configuration (and from concurrent threads). "
    "The inverse law itself is input sampling inside a vetted template "
    "domain and is reported as such."
    ' Session 3 added: parserinfo-instance routes, short-read text streams, decimal-context events, fractions of 1-6 digits with dot or comma (also after compact times), dates biased to leap days and month/year ends.')
LEVEL_NOTE = (
    "Trusted: the harness' renderer/inverse (models/render.py); the template "
    "domain is restricted to spellings the parser documents (offsets only "
    "after a numeric time field or space-separated after AM/PM); two-digit "
    "years are judged against the year at which the parser in use was "
    "constructed under the simulated clock; the module default parser is "
    "re-created at the start of each run so that 'import time' is simulated "
    "too.")
TECHNIQUE = ("deterministic simulation of clock / process-TZ configuration "
             "histories; rendered-datetime inverse as per-operation oracle")
RULE = ("one evaluation = one generated history of TZ/clock/parser events and "
        "parses of rendered datetimes; non-trivial = at least one "
        "configuration event between two parses and at least 5 judged "
        "parses; distinct = distinct SHA-1 of the full event history")
EXPECTED_PROBES = ["failed_call_in_history", "year_pivot_boundary_hit",
                   "reparse_other_config",
                   "two_digit_year", "offset_rendered", "default_from_clock",
                   "year_below_100", "input.bytes", "input.stream"]

REAL = ['dateutil.parser (all of it), dateutil.tz, relativedelta from /repo/src', 'CPython 3.12, six', 'glibc localtime/tzset under the real TZ variable', 'real OS threads in the threads class (one runs at a time)']
STUB = ["wall clock (SimClock behind the parser module's datetime/time names)", 'thread scheduling (seeded baton passing at sys.monitoring LINE events of parser/_parser.py)', "'import time' of the module default parser (re-created under the simulated clock)"]

CLASSES = {
    "config":  dict(quick=12000, thorough=100000, timeout=60),
    "threads": dict(quick=3000, thorough=20000, timeout=60),
}

# Every daylight-saving setting carries explicit rules: for a TZ string
# without them glibc borrows the rules of its "posixrules" file, and under
# that fallback localtime() is not a function of (TZ, instant) -- after a
# mktime() call the same instant is reported with the other offset (checked
# with the time module alone, no dateutil involved). Such settings would make
# any history-independence oracle report libc, not dateutil.
TZ_SETTINGS = [None, "UTC", "EST5EDT,M3.2.0,M11.1.0",
               "CET-1CEST,M3.5.0,M10.5.0/3", "NZST-12NZDT,M9.5.0,M4.1.0/3",
               "XYZ-5:30", "AAA11"]
# simulated instants: year ends / century ends +-1 s, leap day, mid-year
CLOCKS = [946684799.0, 946684800.0, 946684801.0, 2524607999.0, 2524608000.0,
          4102444799.0, 4102444800.0, 1709164800.0, 1e9, 1735689599.0,
          1735689600.0, 1751328000.0, 915148799.0, 2854656000.0,
          3328041600.0]


def TARGET_FILES(cls):
    return ["parser/_parser.py"]


# texts the parser must refuse (unknown word without fuzzy, a 13th month, an
# impossible time, non-text input), used to put failed calls into histories
JUNK = ["10/09/2003 approx.", "2003-13-45", "25:61", "not a date", "", None,
        "Sept 31 2003 noonish", "1/2/3/4/5"]


def gen_dt(rng):
    y = rng.choice([1, 9, 10, 31, 32, 50, 99, 100, 101, 999, 1000, 1969,
                    1999, 2000, 2024, 2049, 2050, 9999,
                    rng.randrange(1, 10000)])
    m = rng.randrange(1, 13)
    d = rng.randrange(1, calendar.monthrange(y, m)[1] + 1)
    r = rng.random()
    if r < 0.06:
        # leap day (of the nearest leap year that is not a century
        # exception)
        y = max(4, y - y % 4)
        if not calendar.isleap(y):
            y += 4
        m, d = 2, 29
    elif r < 0.14:
        # month ends, year ends and beginnings
        m, d = rng.choice([(12, 31), (1, 1), (2, 28), (3, 31), (4, 30),
                           (1, 31), (10, 31), (11, 30)])
    return [y, m, d, rng.choice([0, 11, 12, 13, 23, rng.randrange(24)]),
            rng.randrange(60), rng.randrange(60),
            rng.choice([0, 1, 999999, 500000, rng.randrange(10 ** 6)])]


UNI_BLANKS = ["\u00a0", "\u202f", "\u2009", "\u3000"]


def gen_parse(rng):
    t = rng.choice(R.TEMPLATES)
    op = ["parse", t["name"], gen_dt(rng), None, 0,
          rng.choice(["module", "module", "p0", "p1", "info", "pinfo",
                      "info_override", "pinfo_late"]),
          rng.choice(["str", "str", "str", "bytes", "stringio",
                      "shortstream", "stringio_offset"]),
          rng.choice(["explicit", "explicit", "clock"])]
    if t["has_time"] and rng.random() < 0.6:
        op[3] = rng.choice(R.OFFSET_FORMS)
        op[4] = rng.choice([0, 0, 3600, -3600, 19800, -12600, 86340, -86340,
                            rng.randrange(-1439, 1440) * 60])
    if t["twodigit"]:
        op[2][0] = rng.randrange(0, 100)     # only the last two digits count
        if (op[2][1], op[2][2]) == (2, 29):
            # keep the leap day: a two-digit year divisible by four (00 is
            # a leap year in 2000, the only century a pivot can reach here
            # besides 2100)
            op[2][0] = rng.choice([0, 4, 8, 12, 16, 20, 24, 28, 32, 48, 64,
                                   72, 96])
    return op


def gen_world(rng):
    r = rng.random()
    if r < 0.35:
        return ["set_tz", rng.choice(TZ_SETTINGS)]
    if r < 0.55:
        return ["tick", rng.choice([1, 2, 3600, 86400, 86400 * 366])]
    if r < 0.8:
        return ["jump", rng.choice(CLOCKS)]
    if r < 0.88:
        # the calling thread's decimal context: seconds are read through
        # Decimal, whose arithmetic follows this thread-wide configuration
        return ["decimal", rng.choice([28, 9, 6, 3]),
                rng.choice(["ROUND_HALF_EVEN", "ROUND_DOWN", "ROUND_UP"])]
    if r < 0.92:
        # the interpreter's int<->str digit limit: process configuration a
        # host may change; the reading of an ordinary date does not depend
        # on it
        return ["intmax", rng.choice([0, 640, 640, 4300, 100000])]
    return ["new_parser", rng.choice([0, 1])]


def generate(cls, rng):
    init = dict(clock=rng.choice(CLOCKS), tz=rng.choice(TZ_SETTINGS))
    if cls == "config":
        ops = []
        from dsim import depth as DP
        for _ in range(rng.randrange(6, DP.pick(40, 120))):
            r = rng.random()
            if r < 0.25:
                ops.append(gen_world(rng))
            elif r < 0.32:
                # a call that fails, with flags: nothing of it may linger
                ops.append(["junk", rng.choice(JUNK),
                            rng.choice([{}, {"dayfirst": True},
                                        {"yearfirst": True},
                                        {"dayfirst": True,
                                         "yearfirst": True}]),
                            rng.choice(["module", "p0", "p1"])])
            elif r < 0.40 and ops:
                ops.append(["reparse", rng.randrange(0, 40)])
            else:
                ops.append(gen_parse(rng))
        return dict(init=init, ops=ops)
    threads = [[gen_parse(rng) for _ in range(rng.randrange(1, 5))]
               for _ in range(rng.choice([2, 2, 3]))]
    for prog in threads:
        for op in prog:
            op[5] = rng.choice(["module", "module", "p0", "info"])
    strat = rng.choice([dict(kind="random", p=rng.choice([0.02, 0.1, 1.0])),
                        dict(kind="pb", k=rng.choice([1, 2, 3]),
                             horizon=rng.choice([300, 1500])),
                        dict(kind="pct", d=rng.choice([2, 3]),
                             horizon=rng.choice([300, 1500])),
                        dict(kind="pbx", k=rng.choice([1, 1, 2, 3])), dict(kind="pbx", k=rng.choice([1, 1, 2, 3]))])
    return dict(init=init, threads=threads,
                sched=dict(strategy=strat, seed=rng.getrandbits(32)))


class Env(object):
    def __init__(self, ctx, init):
        import dateutil.parser._parser as P
        from dateutil import parser
        self.P = P
        self.parser = parser
        self.ctx = ctx
        self.clock = simclock.install()
        self.set_tz(init.get("tz"))
        self.clock.t = self.clock.t_min = self.clock.t_max = float(
            init.get("clock", 1e9))
        # "import time" happens now: the module default parser captures the
        # simulated current year
        P.DEFAULTPARSER = P.parser()
        self.built_year = {"module": self.local_year()}
        self.parsers = {}
        self.new_parser(0)
        self.new_parser(1)
        self.config_events = 0

    def local_year(self):
        return time.localtime(self.clock.t).tm_year

    def set_tz(self, v):
        if v is None:
            os.environ.pop("TZ", None)
        else:
            os.environ["TZ"] = v
        time.tzset()
        self.tz = v

    def new_parser(self, k):
        self.parsers["p%d" % k] = self.parser.parser(self.parser.parserinfo())
        self.built_year["p%d" % k] = self.local_year()
        t = time.localtime(self.clock.t)
        if (t.tm_mon, t.tm_mday) in ((12, 31), (1, 1)):
            self.ctx.probe("year_pivot_boundary_hit")

    def world(self, op):
        if op[0] == "set_tz":
            self.set_tz(op[1])
        elif op[0] == "tick":
            self.clock.tick(op[1])
        elif op[0] == "jump":
            self.clock.set(op[1])
        elif op[0] == "new_parser":
            self.new_parser(op[1])
        elif op[0] == "decimal":
            import decimal
            c = decimal.getcontext()
            c.prec = op[1]
            c.rounding = getattr(decimal, op[2])
            self.ctx.probe("decimal_context_changed")
        elif op[0] == "intmax":
            import sys
            if hasattr(sys, "set_int_max_str_digits"):
                sys.set_int_max_str_digits(op[1])
                self.ctx.probe("int_max_str_digits_changed")
        self.config_events += 1
        self.ctx.event("world", op)


def offset_allowed(t, text, form):
    """Offsets are rendered only where the parser documents them: after a
    numeric time field, or separated by a space after AM/PM or an h/m/s
    word; never after a year (ctime)."""
    if not t["has_time"] or t["precision"] == "h":
        return False
    if t["name"].startswith("ctime") or t["name"] in (
            "time_first_iso", "hms_words_compact_date", "hm_colon_iso_date"):
        return False        # the text ends in a year / a date, not a time
    if text[-1].isdigit():
        return True
    return form.startswith(" ")


def build(op, env):
    """(text, flags, expected naive datetime, expected offset or None)."""
    _, tname, f, form, off, via, inform, defkind = op
    t = R.BY_NAME[tname]
    f = list(f)
    if t["twodigit"]:
        yy = f[0] % 100
        f[0] = R.pivot_year(yy, env.built_year[via] if via in env.built_year
                            else env.local_year())
        if f[0] < 1 or f[0] > 9999:
            return None
        f[2] = min(f[2], calendar.monthrange(f[0], f[1])[1])
    d = datetime.datetime(*f)
    text = t["fn"](d)
    want_off = None
    if form is not None and offset_allowed(t, text, form):
        suf = R.render_offset(form, off)
        if suf is not None:
            text += suf
            want_off = off
    return text, dict(t["flags"]), R.truncate(d, t["precision"]), want_off


def do_parse(env, op, text, flags):
    _, tname, f, form, off, via, inform, defkind = op
    kw = dict(flags)
    if defkind == "explicit":
        kw["default"] = datetime.datetime(2003, 9, 25)
    if inform == "bytes":
        x = text.encode("ascii")
    elif inform == "stringio":
        x = io.StringIO(text)
    elif inform == "stringio_offset":
        # a stream the caller has already read from: parsing starts at the
        # stream's position, not at the beginning of its buffer
        x = io.StringIO("Date: " + text)
        x.read(6)
    elif inform == "shortstream":
        # a text stream that delivers legal short reads
        from dsim.simfs import ShortTextStream
        x = ShortTextStream(text, len(text))
    else:
        x = text
    if via == "module":
        return env.parser.parse(x, **kw)
    if via == "info_override":
        # the parserinfo says the opposite; the flags given with the call
        # (True or an explicit False) decide
        info = env.parser.parserinfo(dayfirst=not kw.get("dayfirst", False),
                                     yearfirst=not kw.get("yearfirst", False))
        kw.setdefault("dayfirst", False)
        kw.setdefault("yearfirst", False)
        return env.parser.parse(x, parserinfo=info, **kw)
    if via in ("info", "pinfo"):
        # the day-first / year-first reading configured on a parserinfo
        # INSTANCE (built now, under the simulated clock) instead of per call
        info = env.parser.parserinfo(dayfirst=bool(kw.pop("dayfirst", False)),
                                     yearfirst=bool(kw.pop("yearfirst",
                                                           False)))
        if via == "info":
            return env.parser.parse(x, parserinfo=info, **kw)
        return env.parser.parser(info).parse(x, **kw)
    if via == "pinfo_late":
        # the reading configured on the parser's parserinfo AFTER the parser
        # was built (public attributes of a public object)
        p = env.parser.parser(env.parser.parserinfo())
        p.info.dayfirst = bool(kw.pop("dayfirst", False))
        p.info.yearfirst = bool(kw.pop("yearfirst", False))
        return p.parse(x, **kw)
    return env.parsers[via].parse(x, **kw)


def judge(ctx, op, text, got, want, want_off):
    ctx.checks += 1
    if not isinstance(got, datetime.datetime):
        ctx.violation("C02.not_a_datetime", dict(text=text, got=repr(got)))
        return
    naive = got.replace(tzinfo=None)
    detail = dict(text=text, template=op[1], got=got.isoformat(),
                  want=want.isoformat(), want_offset=want_off, via=op[5],
                  form=op[6])
    if naive != want:
        ctx.violation("C02.wrong_datetime", detail)
    elif want_off is None:
        if got.tzinfo is not None:
            ctx.violation("C02.unexpected_tzinfo", detail)
    else:
        if got.tzinfo is None:
            ctx.violation("C02.missing_tzinfo", detail)
        else:
            o = got.utcoffset()
            if o is None or o.total_seconds() != want_off:
                detail["got_offset"] = None if o is None else o.total_seconds()
                ctx.violation("C02.wrong_offset", detail)


def run_one(env, ctx, op, who="main"):
    b = build(op, env)
    if b is None:
        return None
    text, flags, want, want_off = b
    k = sum(op[2]) + len(text)
    if op[6] != "bytes" and k % 13 == 0 and " " in text:
        # the blanks of the rendering written as other Unicode blanks (no-
        # break space, narrow no-break space as ICU puts in front of AM/PM,
        # thin space, ideographic space): white space to str.isspace()
        text = text.replace(" ", UNI_BLANKS[k // 13 % len(UNI_BLANKS)])
        ctx.probe("unicode_blanks")
    t = R.BY_NAME[op[1]]
    if t["twodigit"]:
        ctx.probe("two_digit_year")
    if want_off is not None:
        ctx.probe("offset_rendered")
    if op[7] == "clock":
        ctx.probe("default_from_clock")
    if want.year < 100:
        ctx.probe("year_below_100")
    if op[6] == "bytes":
        ctx.probe("input.bytes")
    elif op[6] == "stringio":
        ctx.probe("input.stream")
    try:
        got = do_parse(env, op, text, flags)
    except (Deadlock, BudgetExceeded):
        raise
    except Exception as e:
        with K.mute():
            ctx.checks += 1
            ctx.event(who, "parse", text, "raised", type(e).__name__)
            ctx.violation("C02.raises",
                          dict(text=text, template=op[1],
                               exc=type(e).__name__, msg=str(e)[:200],
                               via=op[5], form=op[6]))
        return None
    with K.mute():
        judge(ctx, op, text, got, want, want_off)
        ctx.event(who, "parse", text, got.isoformat(), op[5])
        ctx.state(op[1], want_off is not None, env.tz)
    return (text, flags, got)


def execute(cls, scenario, ctx):
    import warnings
    warnings.simplefilter("ignore")
    env = Env(ctx, scenario["init"])
    if cls == "config":
        done = []
        judged = 0
        K.set_budget(8000000)
        try:
            for op in scenario["ops"]:
                if op[0] == "parse":
                    r = run_one(env, ctx, op)
                    if r is not None:
                        judged += 1
                        done.append((op, r, env.config_events))
                elif op[0] == "reparse":
                    if not done:
                        continue
                    prev_op, (text, flags, got), ev = done[op[1] % len(done)]
                    if ev == env.config_events:
                        continue
                    # same text and options, same parser object, another
                    # configuration: must be the same answer
                    if prev_op[7] == "clock" and \
                            not R.BY_NAME[prev_op[1]]["has_time"] and False:
                        continue
                    if prev_op[5] != "module" and \
                            R.BY_NAME[prev_op[1]]["twodigit"]:
                        # parser objects may have been replaced meanwhile
                        continue
                    try:
                        again = do_parse(env, prev_op, text, flags)
                    except Exception as e:
                        ctx.violation("C02.config_dependent",
                                      dict(text=text, first=got.isoformat(),
                                           again="raised " +
                                           type(e).__name__, tz=env.tz))
                        continue
                    ctx.checks += 1
                    ctx.probe("reparse_other_config")
                    same = again == got if (again.tzinfo is None) == \
                        (got.tzinfo is None) else False
                    if not same or again.replace(tzinfo=None) != \
                            got.replace(tzinfo=None):
                        ctx.violation("C02.config_dependent",
                                      dict(text=text, first=got.isoformat(),
                                           again=again.isoformat(),
                                           tz=env.tz, clock=env.clock.t))
                    ctx.event("reparse", text, again.isoformat())
                elif op[0] == "junk":
                    _, text, flags, via = op
                    try:
                        if via == "module":
                            env.parser.parse(text, **flags)
                        else:
                            env.parsers[via].parse(text, **flags)
                        outcome = "accepted"
                    except (Deadlock, BudgetExceeded):
                        raise
                    except Exception as e:
                        outcome = type(e).__name__
                    ctx.probe("failed_call_in_history")
                    ctx.event("junk", text, flags, via, outcome)
                else:
                    env.world(op)
        except BudgetExceeded as e:
            ctx.violation("liveness.budget", dict(msg=str(e)))
        finally:
            K.set_budget(None)
        ctx.sim_clock_span = env.clock.span()
        if judged >= 5 and env.config_events >= 1:
            ctx.nontrivial = True
        return
    st = scenario["sched"]
    sched = Scheduler(st["strategy"], st.get("seed", 0), tape=st.get("tape"),
                      max_steps=2000000)
    for ti, prog in enumerate(scenario["threads"]):
        def body(ti=ti, prog=prog):
            for op in prog:
                run_one(env, ctx, op, "T%d" % ti)
        sched.spawn(body, "T%d" % ti)
    try:
        sched.run()
    finally:
        ctx.sched_summary = sched.summary()
    ctx.fault("preemption", sched.preemptions)
    if sched.switches:
        ctx.nontrivial = True
