"""Simulated wall clock behind the module-global names `datetime` and `time`
of dateutil modules.

Only the ambient reads change: datetime.now()/utcnow()/today(),
date.today(), time.time(), time.localtime()/gmtime() without argument.
Everything else delegates to the real modules, and every object produced is a
plain datetime.datetime / time.struct_time. The simulated instant is an epoch
number; its local rendering goes through the real C library under the
current (real) TZ setting, so process-TZ events compose with clock events.
"""
import datetime as _dt
import time as _time


class SimClock(object):
    def __init__(self, t=1700000000.0):
        self.t = float(t)
        self.t_min = self.t
        self.t_max = self.t
        self.reads = 0

    def set(self, t):
        self.t = float(t)
        self.t_min = min(self.t_min, self.t)
        self.t_max = max(self.t_max, self.t)

    def tick(self, d):
        self.set(self.t + d)

    def span(self):
        return int(self.t_max - self.t_min)


CLOCK = SimClock()


class _DatetimeMeta(type):
    def __instancecheck__(cls, obj):
        return isinstance(obj, _dt.datetime)

    def __subclasscheck__(cls, sub):
        return issubclass(sub, _dt.datetime)

    def __call__(cls, *a, **k):
        return _dt.datetime(*a, **k)

    def __getattr__(cls, name):
        return getattr(_dt.datetime, name)


class SimDatetime(metaclass=_DatetimeMeta):
    @staticmethod
    def now(tz=None):
        CLOCK.reads += 1
        return _dt.datetime.fromtimestamp(CLOCK.t, tz)

    @staticmethod
    def utcnow():
        CLOCK.reads += 1
        return _dt.datetime.utcfromtimestamp(CLOCK.t)

    @staticmethod
    def today():
        CLOCK.reads += 1
        return _dt.datetime.fromtimestamp(CLOCK.t)


class _DateMeta(type):
    def __instancecheck__(cls, obj):
        return isinstance(obj, _dt.date)

    def __subclasscheck__(cls, sub):
        return issubclass(sub, _dt.date)

    def __call__(cls, *a, **k):
        return _dt.date(*a, **k)

    def __getattr__(cls, name):
        return getattr(_dt.date, name)


class SimDate(metaclass=_DateMeta):
    @staticmethod
    def today():
        CLOCK.reads += 1
        return _dt.datetime.fromtimestamp(CLOCK.t).date()


class SimDatetimeModule(object):
    datetime = SimDatetime
    date = SimDate

    def __getattr__(self, name):
        return getattr(_dt, name)


class SimTimeModule(object):
    def time(self):
        CLOCK.reads += 1
        return CLOCK.t

    def localtime(self, secs=None):
        if secs is None:
            CLOCK.reads += 1
            secs = CLOCK.t
        return _time.localtime(secs)

    def gmtime(self, secs=None):
        if secs is None:
            CLOCK.reads += 1
            secs = CLOCK.t
        return _time.gmtime(secs)

    def __getattr__(self, name):
        return getattr(_time, name)


def install(modules=None):
    """Rebind `datetime`/`time` in the dateutil modules that read the clock."""
    import dateutil.parser._parser as P
    import dateutil.rrule as R
    import dateutil.utils as U
    dtm = SimDatetimeModule()
    tm = SimTimeModule()
    P.datetime = dtm
    P.time = tm
    R.datetime = dtm
    # utils does `from datetime import datetime, time`
    U.datetime = SimDatetime
    return CLOCK
