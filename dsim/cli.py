"""Command line driver: check / replay / selftest."""
import argparse
import importlib
import json
import os
import shutil
import subprocess
import sys
import tempfile
import time

VERIF = os.path.dirname(os.path.dirname(os.path.abspath(__file__)))
CLAIMED = ["C02", "C06", "C08", "C10", "C11", "C12", "C14", "C15", "C17",
           "C18"]


def reexec_if_needed():
    """One clean interpreter state: fixed hash seed, private byte-code dir
    (so the working tree is always compiled from source)."""
    if os.environ.get("DSIM_REEXEC") == "1":
        return
    env = dict(os.environ)
    env["DSIM_REEXEC"] = "1"
    env.setdefault("PYTHONHASHSEED", "0")
    d = tempfile.mkdtemp(prefix="dsim-pyc-")
    env["PYTHONPYCACHEPREFIX"] = d
    env["DSIM_PYC_DIR"] = d
    env.pop("TZ", None)
    try:
        rc = subprocess.call([sys.executable] + sys.argv, env=env)
    finally:
        shutil.rmtree(d, ignore_errors=True)
    sys.exit(rc)


def load_spec(prop):
    from dsim import boot
    d = boot.boot()
    mod = importlib.import_module("checks." + prop.lower())
    mod.SRC_DIR = os.path.dirname(d.__file__)
    from dsim import kernel
    files = set()
    for cls in getattr(mod, "CLASSES", {}):
        for f in mod.TARGET_FILES(cls):
            files.add(f if os.path.isabs(f) else
                      os.path.join(mod.SRC_DIR, f))
    kernel.prewarm_write_lines(files)
    return mod


def load_known():
    p = os.path.join(VERIF, "known_findings.json")
    if not os.path.exists(p):
        return []
    with open(p) as f:
        return json.load(f)["findings"]


def verif_seed():
    from dsim.runner import DEFAULT_SEED
    try:
        return int(os.environ.get("VERIF_SEED", DEFAULT_SEED))
    except ValueError:
        return DEFAULT_SEED


def cmd_check(args):
    from dsim import runner, shrink
    t0 = time.time()
    prop = args.property.upper()
    tier = args.tier or os.environ.get("VERIF_TIER") or "quick"
    if tier not in ("quick", "thorough"):
        tier = "quick"
    spec = load_spec(prop)
    known = load_known()
    seed = verif_seed()
    nworkers = args.workers or int(os.environ.get("VERIF_WORKERS", 0)) or \
        (os.cpu_count() or 4)
    scale = float(os.environ.get("VERIF_RUNS_SCALE", "1"))
    jobs = []
    for cls in sorted(spec.CLASSES):
        if args.cls and cls not in args.cls.split(","):
            continue
        c = spec.CLASSES[cls]
        n = args.runs if args.runs else int(c[tier] * scale)
        depth = args.depth
        if depth:
            if n > 0:
                jobs.append((cls, n, c.get("timeout", 20) * (3 if depth > 1
                                                              else 1),
                             args.first, depth))
        elif tier == "thorough":
            # 70 % of the runs with the quick tier's bounds, 30 % deep
            # (wider bounds, see dsim/depth.py)
            n1, n2 = n - int(n * 0.3), int(n * 0.3)
            if n1 > 0:
                jobs.append((cls, n1, c.get("timeout", 20), args.first, 1))
            if n2 > 0:
                jobs.append((cls, n2, c.get("timeout", 20) * 3, args.first,
                             2))
        elif n > 0:
            jobs.append((cls, n, c.get("timeout", 20), args.first, 1))
    cap = args.wall or float(os.environ.get(
        "VERIF_WALL_CAP", 240 if tier == "quick" else 2400))
    print("dsim check property=%s tier=%s VERIF_SEED=%d workers=%d jobs=%s" %
          (prop, tier, seed, nworkers,
           [(j[0] + ("+deep" if j[4] > 1 else ""), j[1]) for j in jobs]))
    sys.stdout.flush()
    agg = runner.run_batch(spec, jobs, seed, known, nworkers, cap)
    wall_batch = time.time() - t0
    exit_code = 0
    lines = []

    # --- harness errors ---------------------------------------------------
    if agg.harness:
        exit_code = 2
        for cls, idx, err in agg.harness[:5]:
            lines.append("HARNESS-ERROR property=%s class=%s run=%s %s" % (
                prop, cls, idx, (err or "").strip().splitlines()[-1:]))
            if err:
                sys.stderr.write(err + "\n")

    # --- violations: minimise, write replay, confirm in a fresh process ----
    reported = []
    seen_inv = {}
    unreproduced = []
    tried_unrepro = {}
    for cls, idx, res in agg.violations:
        inv = res.get("invariant")
        if seen_inv.get(inv, 0) >= 2 or tried_unrepro.get(inv, 0) >= 6:
            continue
        seen_inv[inv] = seen_inv.get(inv, 0) + 1
        sc = res.get("scenario")
        deep_run = cls.endswith("+deep")
        cls = cls.split("+")[0]
        to = spec.CLASSES[cls].get("timeout", 20) * (3 if deep_run else 1)

        def evalfn(s, cls=cls, to=to):
            return runner.fork_eval(spec, cls, s, known, to)

        again = evalfn(sc)
        if again.get("verdict") != "violation" or \
                again.get("invariant") != inv or \
                again.get("digest") != res.get("digest"):
            # not reproduced by the same scenario in another process: either
            # the harness is nondeterministic or the failure depends on
            # something no seam controls (object addresses: code keyed by
            # id()). Never a pass; reported as a harness error unless
            # another run of the batch gives a replayable violation.
            unreproduced.append(
                "HARNESS-ERROR property=%s class=%s run=%s "
                "nondeterministic: rerun gave %s/%s (was %s)" %
                (prop, cls, idx, again.get("verdict"),
                 again.get("invariant"), inv))
            seen_inv[inv] -= 1
            tried_unrepro[inv] = tried_unrepro.get(inv, 0) + 1
            continue
        sh = shrink.Shrinker(evalfn, inv,
                             max_evals=args.shrink_evals,
                             max_wall=args.shrink_wall)
        small = sh.shrink(sc, getattr(spec, "simplify", None) and
                          (lambda s, cls=cls: spec.simplify(cls, s)))
        final = evalfn(small)
        if final.get("verdict") != "violation" or \
                final.get("invariant") != inv:
            small, final = sc, again
        path = os.path.join(VERIF, "replays", "%s-%s%s-%d-%d.json" %
                            (prop, cls, "-deep" if deep_run else "", seed,
                             idx))
        os.makedirs(os.path.dirname(path), exist_ok=True)
        rec = dict(property=prop, cls=cls, verif_seed=seed, run_index=idx,
                   scenario=small, invariant=inv,
                   detail=final.get("detail"), digest=final.get("digest"),
                   tail=final.get("tail"), sched=final.get("sched"),
                   original_size=len(json.dumps(sc, default=repr)),
                   minimised_size=len(json.dumps(small, default=repr)),
                   shrink_evals=sh.evals)
        with open(path, "w") as f:
            json.dump(rec, f, indent=1, default=repr, sort_keys=True)
        # confirm in a fresh interpreter
        env = dict(os.environ)
        env.pop("DSIM_REEXEC", None)
        p = subprocess.run([sys.executable, os.path.join(VERIF, "bin",
                                                         "check.py"),
                            "replay", path], env=env, capture_output=True,
                           text=True, timeout=300)
        if p.returncode != 1 or "VIOLATION property=%s" % prop not in p.stdout:
            unreproduced.append(
                "HARNESS-ERROR property=%s replay %s did not reproduce in a "
                "fresh process (rc=%s)" % (prop, path, p.returncode))
            try:
                os.unlink(path)
            except OSError:
                pass
            seen_inv[inv] -= 1
            tried_unrepro[inv] = tried_unrepro.get(inv, 0) + 1
            continue
        lines.append("VIOLATION property=%s replay=%s" % (prop, path))
        lines.append("  invariant=%s detail=%s" % (
            inv, json.dumps(final.get("detail"), default=repr)[:600]))
        reported.append(dict(invariant=inv, replay=path,
                             detail=final.get("detail")))
        exit_code = 1      # a confirmed violation outranks harness errors
    lines.extend(unreproduced[:8])
    if unreproduced and not reported:
        exit_code = 2
    if agg.nviol and not reported and exit_code == 0:
        exit_code = 2
        lines.append("HARNESS-ERROR property=%s violations seen but none "
                     "could be reported" % prop)

    # --- known findings ------------------------------------------------------
    kmap = dict((k["id"], k) for k in known)
    for kid in sorted(agg.known):
        ent = kmap.get(kid, {})
        lines.append("KNOWN-FINDING: property=%s %s: %s (hit %d times; e.g. "
                     "%s)" % (prop, kid, ent.get("description", ""),
                              agg.known[kid]["n"],
                              json.dumps(agg.known[kid]["example"],
                                         default=repr)[:300]))

    if os.environ.get("VERIF_DUMP_DIGESTS"):
        with open(os.environ["VERIF_DUMP_DIGESTS"], "w") as f:
            for rec in sorted(agg.per_run):
                f.write("%s %d %s %s\n" % tuple(rec))
    wall = time.time() - t0
    write_evidence(spec, prop, tier, seed, agg, wall, wall_batch, reported,
                   nworkers, jobs)
    for ln in lines:
        print(ln)
    print("dsim done property=%s runs=%d ok=%d violations=%d known=%d "
          "harness_errors=%d distinct_nontrivial=%d wall=%.1fs exit=%d" %
          (prop, agg.runs, agg.ok, agg.nviol,
           sum(v["n"] for v in agg.known.values()), len(agg.harness),
           len(agg.digests_nontrivial), wall, exit_code))
    return exit_code


def write_evidence(spec, prop, tier, seed, agg, wall, wall_batch, reported,
                   nworkers, jobs):
    expected = getattr(spec, "EXPECTED_PROBES", [])
    never = [p for p in expected if not agg.probes.get(p) and
             not agg.faults.get(p) and not agg.counters.get(p)]
    cov = dict(
        evaluations=agg.runs,
        distinct_nontrivial=len(agg.digests_nontrivial),
        rule=getattr(spec, "RULE", "") or
        "one evaluation = one seeded simulated run (generated operation and "
        "fault sequence + schedule) in a freshly forked process; distinct = "
        "distinct SHA-1 digests of the full event history; non-trivial as "
        "defined by the check's execute()",
        samples=agg.samples[:3] or [dict(note="no non-trivial sample")],
        distinct_histories=len(agg.digests),
        runs_per_hour=int(agg.runs / max(wall_batch, 1e-6) * 3600),
        seeds_per_hour=int(agg.runs / max(wall_batch, 1e-6) * 3600),
        seeds_note="every run has its own seed sha256(VERIF_SEED/property/"
                   "class/index); runs_per_hour == seeds_per_hour",
        oracle_comparisons=agg.checks,
        scheduled_steps=agg.steps,
        history_events=agg.events,
        context_switches=agg.switches,
        distinct_interleavings=len(agg.interleavings),
        distinct_abstract_states=len(agg.states),
        simulated_clock_span_s=agg.sim_clock_span,
        faults_fired=agg.faults,
        probes=agg.probes,
        probes_never_hit=never,
        counters=agg.counters,
        per_class=agg.per_class,
        jobs=[dict(cls=j[0], runs=j[1], depth=j[4]) for j in jobs],
        workers=nworkers,
        known_findings_seen=dict((k, v["n"]) for k, v in agg.known.items()),
        violations_reported=reported,
        harness_errors=len(agg.harness),
        real_components=getattr(spec, "REAL", [
            "all dateutil code from /repo/src", "six", "CPython 3.12",
            "real OS threads (parked; one runs at a time)"]),
        stub_components=getattr(spec, "STUB", [
            "locks (SimLock via six.moves._thread)",
            "thread scheduling (seeded baton passing on sys.monitoring LINE "
            "events)", "garbage collection timing (gc disabled, explicit)"]),
    )
    ev = dict(property_id=prop, tier=tier, seed=seed, level="exploration",
              coverage=cov,
              assumptions=getattr(spec, "ASSUMPTIONS", [
                  "sampling of schedules/histories/faults, not enumeration",
                  "pre-emption at source-line granularity inside the "
                  "instrumented dateutil files only"]),
              wall_s=round(wall, 2), violations=len(reported))
    d = os.environ.get("VERIF_EVIDENCE_DIR") or os.path.join(VERIF,
                                                             "evidence")
    os.makedirs(d, exist_ok=True)
    tmp = os.path.join(d, prop + ".json.tmp")
    with open(tmp, "w") as f:
        json.dump(ev, f, indent=1, default=repr, sort_keys=True)
    os.replace(tmp, os.path.join(d, prop + ".json"))


def cmd_replay(args):
    from dsim import runner
    with open(args.path) as f:
        rec = json.load(f)
    prop = rec["property"]
    spec = load_spec(prop)
    known = load_known()
    res = runner.fork_eval(spec, rec["cls"], rec["scenario"], known,
                           spec.CLASSES[rec["cls"]].get("timeout", 20) * 4)
    print(json.dumps(dict((k, res.get(k)) for k in
                          ("verdict", "invariant", "detail", "digest",
                           "error", "tail")), indent=1, default=repr))
    for kid, r in sorted(res.get("known", {}).items()):
        print("KNOWN-FINDING: property=%s %s (hit %d times)" %
              (prop, kid, r["n"]))
    if res.get("verdict") == "harness_error":
        print("HARNESS-ERROR property=%s replay=%s" % (prop, args.path))
        return 2
    if res.get("verdict") == "violation":
        same = (res.get("invariant") == rec.get("invariant"))
        print("VIOLATION property=%s replay=%s%s" % (
            prop, args.path, "" if same else
            " (different invariant than recorded: %s)" % rec.get("invariant")))
        return 1
    print("no violation: property=%s replay=%s" % (prop, args.path))
    return 0


def cmd_digests(args):
    """Print 'cls index digest verdict' for the first N runs of each class —
    used by the determinism self-test."""
    from dsim import runner
    prop = args.property.upper()
    spec = load_spec(prop)
    known = load_known()
    seed = verif_seed()
    out = []
    for cls in sorted(spec.CLASSES):
        for i in range(args.first, args.first + args.n):
            sc = runner.make_scenario(spec, cls, seed, i)
            sc = runner.calibrate(spec, cls, sc, known,
                                  spec.CLASSES[cls].get("timeout", 20))
            r = runner.fork_eval(spec, cls, sc, known,
                                 spec.CLASSES[cls].get("timeout", 20))
            out.append("%s %s %d %s %s %s" % (
                prop, cls, i, r.get("digest"), r.get("verdict"),
                (r.get("sched") or {}).get("interleaving")))
        # the deep bounds of the thorough tier
        for i in range(args.first, args.first + max(1, args.n // 3)):
            sc = runner.make_scenario(spec, cls, seed, i, 2)
            sc = runner.calibrate(spec, cls, sc, known,
                                  spec.CLASSES[cls].get("timeout", 20) * 3)
            r = runner.fork_eval(spec, cls, sc, known,
                                 spec.CLASSES[cls].get("timeout", 20) * 3)
            out.append("%s %s+deep %d %s %s %s" % (
                prop, cls, i, r.get("digest"), r.get("verdict"),
                (r.get("sched") or {}).get("interleaving")))
    print("\n".join(out))
    return 0


def main(argv=None):
    ap = argparse.ArgumentParser(prog="check.py")
    sub = ap.add_subparsers(dest="cmd")
    c = sub.add_parser("check")
    c.add_argument("property")
    c.add_argument("--tier", default=None)
    c.add_argument("--runs", type=int, default=0)
    c.add_argument("--first", type=int, default=0)
    c.add_argument("--depth", type=int, default=0,
                   help="1 = quick bounds, 2 = deep bounds (default: by tier)")
    c.add_argument("--cls", default=None)
    c.add_argument("--workers", type=int, default=0)
    c.add_argument("--wall", type=float, default=0)
    c.add_argument("--shrink-evals", type=int, default=500)
    c.add_argument("--shrink-wall", type=float, default=120.0)
    r = sub.add_parser("replay")
    r.add_argument("path")
    d = sub.add_parser("digests")
    d.add_argument("property")
    d.add_argument("-n", type=int, default=20)
    d.add_argument("--first", type=int, default=0)
    s = sub.add_parser("selftest")
    s.add_argument("--n", type=int, default=12)
    s.add_argument("--props", default=None)
    s.add_argument("--batch-runs", type=int, default=0,
                   help="also compare whole batches at 3 and 16 workers")
    args = ap.parse_args(argv)
    if args.cmd is None:
        ap.print_help()
        return 2
    reexec_if_needed()
    if args.cmd == "check":
        return cmd_check(args)
    if args.cmd == "replay":
        return cmd_replay(args)
    if args.cmd == "digests":
        return cmd_digests(args)
    if args.cmd == "selftest":
        from dsim import selftest
        return selftest.run(args)
    return 2
