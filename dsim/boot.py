"""Install the seams and import dateutil from the working tree under test.

Must be imported before anything imports dateutil.
"""
import os
import sys

REPO_SRC = os.environ.get("VERIF_REPO_SRC", "/repo/src")

_booted = False


def boot():
    global _booted
    if _booted:
        return sys.modules["dateutil"]
    if "dateutil" in sys.modules:
        raise RuntimeError("dateutil imported before dsim.boot.boot()")
    from . import kernel
    import six
    import six.moves
    # every dateutil lock is created through this name
    six.moves._thread = kernel.make_thread_shim()
    if REPO_SRC in sys.path:
        sys.path.remove(REPO_SRC)
    sys.path.insert(0, REPO_SRC)
    import dateutil
    import dateutil.rrule
    import dateutil.tz
    import dateutil.tz.tz
    import dateutil.tz._factories
    import dateutil.parser
    import dateutil.parser._parser
    import dateutil.relativedelta
    import dateutil.utils
    import dateutil.zoneinfo
    src = os.path.realpath(REPO_SRC)
    got = os.path.realpath(os.path.dirname(os.path.dirname(dateutil.__file__)))
    if got != src:
        raise RuntimeError("dateutil imported from %s, expected %s" %
                           (got, src))
    for lk in (dateutil.tz.tzoffset._cache_lock,
               dateutil.tz.gettz._cache_lock):
        if not isinstance(lk, kernel.SimLock):
            raise RuntimeError("lock seam not installed: %r" % (lk,))
    _booted = True
    return dateutil


def src_file(rel):
    """Absolute file name of a dateutil source file as code objects see it."""
    import dateutil
    return os.path.join(os.path.dirname(dateutil.__file__), rel)


class _OptLoader(object):
    """Source loader that compiles like ``python -O`` does (assert statements
    and ``if __debug__`` blocks removed), bypassing every byte-code cache."""

    def __init__(self, name, path, is_pkg):
        self.name = name
        self.path = path
        self._is_pkg = is_pkg

    def create_module(self, spec):
        return None

    def exec_module(self, module):
        with open(self.path, "rb") as f:
            data = f.read()
        code = compile(data, self.path, "exec", dont_inherit=True, optimize=1)
        exec(code, module.__dict__)

    def is_package(self, fullname):
        return self._is_pkg

    def get_filename(self, fullname):
        return self.path

    def get_data(self, path):
        # pkgutil.get_data() (the bundled zone archive) goes through here
        with open(path, "rb") as f:
            return f.read()


class _OptFinder(object):
    def find_spec(self, fullname, path=None, target=None):
        if fullname != "dateutil" and not fullname.startswith("dateutil."):
            return None
        import importlib.machinery as m
        import importlib.util as u
        spec = m.PathFinder.find_spec(fullname, path)
        if spec is None or not spec.origin or \
                not spec.origin.endswith(".py"):
            return spec
        is_pkg = spec.submodule_search_locations is not None
        new = u.spec_from_file_location(
            fullname, spec.origin,
            loader=_OptLoader(fullname, spec.origin, is_pkg),
            submodule_search_locations=spec.submodule_search_locations)
        return new


def reimport_optimized():
    """Throw the imported dateutil away and import it again compiled as the
    interpreter compiles under ``-O`` (an interpreter configuration the
    simulator can choose per run; only ever called in a forked run process).
    The lock seam stays in place (six.moves._thread is still the shim)."""
    from . import kernel
    for name in [n for n in sys.modules
                 if n == "dateutil" or n.startswith("dateutil.")]:
        del sys.modules[name]
    finder = _OptFinder()
    sys.meta_path.insert(0, finder)
    try:
        import dateutil
        import dateutil.rrule
        import dateutil.tz
        import dateutil.tz.tz
        import dateutil.tz._factories
        import dateutil.parser
        import dateutil.parser._parser
        import dateutil.relativedelta
        import dateutil.utils
        import dateutil.zoneinfo
        import dateutil.easter
    finally:
        sys.meta_path.remove(finder)
    src = os.path.realpath(REPO_SRC)
    got = os.path.realpath(os.path.dirname(os.path.dirname(dateutil.__file__)))
    if got != src:
        raise RuntimeError("dateutil re-imported from %s, expected %s" %
                           (got, src))
    if not isinstance(dateutil.tz.gettz._cache_lock, kernel.SimLock):
        raise RuntimeError("lock seam lost by the optimised re-import")
    # proof that the optimised compilation is in force
    if any(ins.opname == "LOAD_ASSERTION_ERROR" for ins in
           __import__("dis").get_instructions(
               dateutil.relativedelta.relativedelta._fix)):
        raise RuntimeError("optimised re-import still holds assert code")
    return dateutil
