"""Install the seams and import dateutil from the working tree under test.

Must be imported before anything imports dateutil.
"""
import os
import sys

REPO_SRC = os.environ.get("VERIF_REPO_SRC", "/repo/src")

_booted = False


def boot():
    global _booted
    if _booted:
        return sys.modules["dateutil"]
    if "dateutil" in sys.modules:
        raise RuntimeError("dateutil imported before dsim.boot.boot()")
    from . import kernel
    import six
    import six.moves
    # every dateutil lock is created through this name
    six.moves._thread = kernel.make_thread_shim()
    if REPO_SRC in sys.path:
        sys.path.remove(REPO_SRC)
    sys.path.insert(0, REPO_SRC)
    import dateutil
    import dateutil.rrule
    import dateutil.tz
    import dateutil.tz.tz
    import dateutil.tz._factories
    import dateutil.parser
    import dateutil.parser._parser
    import dateutil.relativedelta
    import dateutil.utils
    import dateutil.zoneinfo
    src = os.path.realpath(REPO_SRC)
    got = os.path.realpath(os.path.dirname(os.path.dirname(dateutil.__file__)))
    if got != src:
        raise RuntimeError("dateutil imported from %s, expected %s" %
                           (got, src))
    for lk in (dateutil.tz.tzoffset._cache_lock,
               dateutil.tz.gettz._cache_lock):
        if not isinstance(lk, kernel.SimLock):
            raise RuntimeError("lock seam not installed: %r" % (lk,))
    _booted = True
    return dateutil


def src_file(rel):
    """Absolute file name of a dateutil source file as code objects see it."""
    import dateutil
    return os.path.join(os.path.dirname(dateutil.__file__), rel)
