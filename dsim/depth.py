"""Exploration depth of scenario generation.

D == 1: the bounds of the quick tier. D == 2 ("deep", part of the thorough
tier): longer operation histories, more threads and iterators, longer rules,
bigger zone files, more keys -- the same generators with wider bounds. The
depth is an input of generation only; a scenario is explicit, so replaying
one does not depend on it."""
D = 1


def deep():
    return D >= 2


def pick(quick, deep_value):
    return deep_value if D >= 2 else quick
