"""Determinism self-test: the same (VERIF_SEED, property, class, index) must
give the same history digest and the same interleaving digest
  * twice in one interpreter,
  * in a fresh interpreter under a different PYTHONHASHSEED,
  * when started from a different working directory.
Any difference is a harness error."""
import os
import subprocess
import sys

from . import cli


def _digests(prop, n, first, hashseed, cwd):
    env = dict(os.environ)
    env.pop("DSIM_REEXEC", None)
    env["PYTHONHASHSEED"] = str(hashseed)
    p = subprocess.run([sys.executable,
                        os.path.join(cli.VERIF, "bin", "check.py"),
                        "digests", prop, "-n", str(n), "--first", str(first)],
                       env=env, capture_output=True, text=True, cwd=cwd,
                       timeout=3600)
    if p.returncode != 0:
        raise RuntimeError("digests %s failed: %s" % (prop, p.stderr[-2000:]))
    return p.stdout.strip().splitlines()


def available_props():
    out = []
    for p in cli.CLAIMED:
        if os.path.exists(os.path.join(cli.VERIF, "checks",
                                       p.lower() + ".py")):
            out.append(p)
    return out


def run(args):
    from concurrent.futures import ThreadPoolExecutor
    props = args.props.split(",") if args.props else available_props()
    n = args.n
    bad = 0
    jobs = []
    with ThreadPoolExecutor(max_workers=os.cpu_count() or 4) as ex:
        for prop in props:
            jobs.append((prop, "hashseed0", ex.submit(_digests, prop, n, 0, 0,
                                                      cli.VERIF)))
            jobs.append((prop, "hashseed0-again", ex.submit(
                _digests, prop, n, 0, 0, cli.VERIF)))
            jobs.append((prop, "hashseed12345", ex.submit(
                _digests, prop, n, 0, 12345, "/")))
            jobs.append((prop, "hashseed777", ex.submit(
                _digests, prop, n, 0, 777, "/tmp")))
        results = {}
        for prop, tag, fut in jobs:
            results.setdefault(prop, []).append((tag, fut.result()))
    for prop in props:
        ref_tag, ref = results[prop][0]
        for tag, got in results[prop][1:]:
            if got != ref:
                bad += 1
                diffs = [(a, b) for a, b in zip(ref, got) if a != b][:3]
                print("HARNESS-ERROR selftest property=%s nondeterministic: "
                      "%s vs %s differ, e.g. %r" % (prop, ref_tag, tag, diffs))
        v = sum(1 for ln in ref if " violation " in ln)
        print("selftest property=%s runs=%d x4 digests identical=%s "
              "(violations among them: %d)" % (prop, len(ref), bad == 0, v))
    return 2 if bad else 0
