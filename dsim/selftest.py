"""Determinism self-test: the same (VERIF_SEED, property, class, index) must
give the same history digest and the same interleaving digest
  * twice in one interpreter,
  * in a fresh interpreter under a different PYTHONHASHSEED,
  * when started from a different working directory.
Any difference is a harness error."""
import os
import subprocess
import sys

from . import cli


def _digests(prop, n, first, hashseed, cwd):
    env = dict(os.environ)
    env.pop("DSIM_REEXEC", None)
    env["PYTHONHASHSEED"] = str(hashseed)
    p = subprocess.run([sys.executable,
                        os.path.join(cli.VERIF, "bin", "check.py"),
                        "digests", prop, "-n", str(n), "--first", str(first)],
                       env=env, capture_output=True, text=True, cwd=cwd,
                       timeout=3600)
    if p.returncode != 0:
        raise RuntimeError("digests %s failed: %s" % (prop, p.stderr[-2000:]))
    return p.stdout.strip().splitlines()


def available_props():
    out = []
    for p in cli.CLAIMED:
        if os.path.exists(os.path.join(cli.VERIF, "checks",
                                       p.lower() + ".py")):
            out.append(p)
    return out


def run(args):
    from concurrent.futures import ThreadPoolExecutor
    props = args.props.split(",") if args.props else available_props()
    n = args.n
    bad = 0
    jobs = []
    with ThreadPoolExecutor(max_workers=os.cpu_count() or 4) as ex:
        for prop in props:
            jobs.append((prop, "hashseed0", ex.submit(_digests, prop, n, 0, 0,
                                                      cli.VERIF)))
            jobs.append((prop, "hashseed0-again", ex.submit(
                _digests, prop, n, 0, 0, cli.VERIF)))
            jobs.append((prop, "hashseed12345", ex.submit(
                _digests, prop, n, 0, 12345, "/")))
            jobs.append((prop, "hashseed777", ex.submit(
                _digests, prop, n, 0, 777, "/tmp")))
        results = {}
        for prop, tag, fut in jobs:
            results.setdefault(prop, []).append((tag, fut.result()))
    if getattr(args, "batch_runs", 0):
        # whole batches under different worker counts: the per-run digests
        # must not depend on how runs are spread over processes
        import tempfile
        for prop in props:
            outs = []
            for nw in (3, 16):
                fd, path = tempfile.mkstemp(prefix="dsim-dg-")
                os.close(fd)
                env = dict(os.environ)
                env.pop("DSIM_REEXEC", None)
                env["VERIF_DUMP_DIGESTS"] = path
                env["VERIF_EVIDENCE_DIR"] = tempfile.mkdtemp(prefix="dsim-ev-")
                subprocess.run([sys.executable,
                                os.path.join(cli.VERIF, "bin", "check.py"),
                                "check", prop, "--runs",
                                str(args.batch_runs), "--workers", str(nw)],
                               env=env, capture_output=True, text=True,
                               timeout=3600)
                outs.append(open(path).read())
                os.unlink(path)
                import shutil
                shutil.rmtree(env["VERIF_EVIDENCE_DIR"], ignore_errors=True)
            same = outs[0] == outs[1] and outs[0] != ""
            if not same:
                bad += 1
                print("HARNESS-ERROR selftest property=%s batch digests "
                      "differ between 3 and 16 workers" % prop)
            print("selftest property=%s batch of %d runs/class at 3 vs 16 "
                  "workers: identical=%s (%d runs)" % (
                      prop, args.batch_runs, same,
                      len(outs[0].splitlines())))
    for prop in props:
        ref_tag, ref = results[prop][0]
        for tag, got in results[prop][1:]:
            if got != ref:
                bad += 1
                diffs = [(a, b) for a, b in zip(ref, got) if a != b][:3]
                print("HARNESS-ERROR selftest property=%s nondeterministic: "
                      "%s vs %s differ, e.g. %r" % (prop, ref_tag, tag, diffs))
        v = sum(1 for ln in ref if " violation " in ln)
        print("selftest property=%s runs=%d x4 digests identical=%s "
              "(violations among them: %d)" % (prop, len(ref), bad == 0, v))
    return 2 if bad else 0
