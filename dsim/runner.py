"""Fork-per-run execution, batches over all cores, aggregation.

A *spec* is a check module exposing:

  PROPERTY            "C11"
  CLASSES             {name: dict(quick=<runs>, thorough=<runs>, timeout=<s>)}
  generate(cls, rng)  -> scenario (JSON-able dict, no ambient input)
  execute(cls, scenario, ctx) -> None   (raises nothing on violation: uses ctx)
  TARGET_FILES(cls)   -> iterable of dateutil-relative file names to step in
  optional: simplify(cls, scenario) -> iterator of simpler scenarios
  optional: KNOWN_PREDICATES {name: fn(scenario, invariant, detail) -> bool}
"""
import errno
import hashlib
import json
import os
import random
import select
import signal
import sys
import time
import traceback

from . import kernel
from .kernel import K

DEFAULT_SEED = 20261004


def derive_seed(verif_seed, prop, cls, index):
    h = hashlib.sha256(("%d/%s/%s/%d" % (verif_seed, prop, cls,
                                         index)).encode()).digest()
    return int.from_bytes(h[:8], "big")


class StopRun(kernel.SimBaseException):
    pass


import re as _re
_ADDR = _re.compile(r"0x[0-9a-fA-F]{6,}")


def _jsonable(x):
    """JSON-able copy with memory addresses (object reprs inside messages)
    blanked: they differ between processes and must not enter a digest."""
    try:
        s = json.dumps(x, default=repr, sort_keys=True)
    except (TypeError, ValueError):
        s = json.dumps(repr(x))
    return json.loads(_ADDR.sub("0x?", s))


class RunContext(object):
    """What a check's execute() talks to during one run."""

    def __init__(self, spec, cls, scenario, known):
        self.spec = spec
        self.cls = cls
        self.scenario = scenario
        self.known = known              # list of open known-finding entries
        self.h = hashlib.sha1()
        self.nevents = 0
        self.faults = {}
        self.probes = {}
        self.states = set()
        self.counters = {}
        self.violation_rec = None
        self.known_seen = {}
        self.nontrivial = False
        self.sim_clock_span = 0
        self.tail = []                  # last few history events (debug)
        self.sched_summary = None
        self.checks = 0                 # oracle comparisons made

    # history -------------------------------------------------------------
    def event(self, *fields):
        s = _ADDR.sub("0x?", json.dumps(fields, default=repr,
                                        sort_keys=True))
        self.h.update(s.encode())
        self.h.update(b"\n")
        self.nevents += 1
        self.tail.append(s)
        if len(self.tail) > 12:
            del self.tail[0]

    def fault(self, kind, n=1):
        self.faults[kind] = self.faults.get(kind, 0) + n

    def probe(self, name, n=1):
        self.probes[name] = self.probes.get(name, 0) + n

    def count(self, name, n=1):
        self.counters[name] = self.counters.get(name, 0) + n

    def state(self, *fields):
        if len(self.states) < 200:
            self.states.add(json.dumps(fields, default=repr))

    # verdicts --------------------------------------------------------------
    def violation(self, invariant, detail, fatal=True):
        """Report a violated invariant. Known findings are counted and the
        run continues; anything else ends the run."""
        detail = _jsonable(detail)
        for ent in self.known:
            if ent.get("status") != "open":
                continue
            if ent["property"] != self.spec.PROPERTY:
                continue
            invs = ent.get("invariants") or [ent["invariant"]]
            if invariant not in invs:
                continue
            pred = self.spec.KNOWN_PREDICATES[ent["match"]]
            ok = False
            try:
                ok = bool(pred(self.scenario, invariant, detail))
            except Exception:
                ok = False
            if ok:
                rec = self.known_seen.setdefault(ent["id"], dict(n=0,
                                                                 example=None))
                rec["n"] += 1
                if rec["example"] is None:
                    rec["example"] = detail
                self.event("known", ent["id"])
                return False
        self.event("violation", invariant, detail)
        if self.violation_rec is None:
            self.violation_rec = dict(invariant=invariant, detail=detail)
        if fatal:
            raise StopRun()
        return True

    def result(self, verdict):
        r = dict(verdict=verdict, digest=self.h.hexdigest(),
                 events=self.nevents, steps=K.steps, faults=self.faults,
                 probes=dict(self.probes), states=sorted(self.states),
                 counters=self.counters, known=self.known_seen,
                 nontrivial=bool(self.nontrivial), checks=self.checks,
                 sim_clock_span=self.sim_clock_span)
        for k, v in K.probes.items():
            r["probes"][k] = r["probes"].get(k, 0) + v
        if self.violation_rec is not None:
            r["invariant"] = self.violation_rec["invariant"]
            r["detail"] = self.violation_rec["detail"]
            r["tail"] = self.tail
        if self.sched_summary is not None:
            r["sched"] = self.sched_summary
        return r


def run_in_process(spec, cls, scenario, known, emit):
    """Execute one scenario in this (already forked) process and hand the
    result dict to emit(). Never returns normally through an exception."""
    import gc
    gc.disable()
    ctx = RunContext(spec, cls, scenario, known)
    if scenario.get("_optimize"):
        from . import boot
        boot.reimport_optimized()
        ctx.probe("interpreter_optimize_1")

    def emergency(verdict, sched):
        # called from a task thread when the scheduler ends the run
        try:
            ctx.sched_summary = sched.summary()
            ctx.violation(verdict["invariant"], verdict["detail"],
                          fatal=False)
            emit(ctx.result("violation" if ctx.violation_rec else "ok"))
        finally:
            os._exit(0)

    K.emergency = emergency
    targets = [os.path.join(spec.SRC_DIR, f) if not os.path.isabs(f) else f
               for f in spec.TARGET_FILES(cls)]
    K.start_monitoring(targets)
    try:
        try:
            spec.execute(cls, scenario, ctx)
            verdict = "violation" if ctx.violation_rec else "ok"
        except StopRun:
            verdict = "violation"
        except kernel.Finish as f:
            ctx.violation(f.verdict["invariant"], f.verdict["detail"],
                          fatal=False)
            verdict = "violation" if ctx.violation_rec else "ok"
        res = ctx.result(verdict)
    except BaseException as e:
        tb = traceback.extract_tb(e.__traceback__)
        src = os.path.realpath(spec.SRC_DIR)
        here = os.path.dirname(os.path.dirname(os.path.realpath(__file__)))
        # innermost frame that belongs either to the library under test or
        # to the harness (frames of the standard library / six in between
        # are skipped): whose code was running when it went wrong?
        inner = None
        for fr in reversed(tb):
            if not os.path.isabs(fr.filename):
                continue            # "<string>", "<frozen ...>"
            fn = os.path.realpath(fr.filename)
            if fn.startswith(src):
                inner = "library"
                tb = tb[:tb.index(fr) + 1]
                break
            if fn.startswith(here):
                inner = "harness"
                break
        if inner == "library" and \
                not isinstance(e, kernel.SimBaseException):
            # the library raised inside a call the harness expected to
            # succeed on any tree where the property holds: that is a
            # violation of the property, not a harness failure
            ctx.violation("%s.library_raised" % spec.PROPERTY,
                          dict(exc=type(e).__name__, msg=str(e)[:200],
                               where="%s:%d in %s" % (
                                   os.path.basename(tb[-1].filename),
                                   tb[-1].lineno, tb[-1].name),
                               called_from="%s:%d" % (
                                   os.path.basename(tb[0].filename),
                                   tb[0].lineno)), fatal=False)
            res = ctx.result("violation" if ctx.violation_rec else "ok")
        else:
            res = ctx.result("harness_error")
            res["error"] = traceback.format_exc()
    emit(res)


def fork_eval(spec, cls, scenario, known, timeout=20.0):
    """Run one scenario in a freshly forked child; returns its result dict."""
    r, w = os.pipe()
    sys.stdout.flush()
    sys.stderr.flush()
    pid = os.fork()
    if pid == 0:
        code = 0
        try:
            os.close(r)

            def emit(res):
                data = json.dumps(res, default=repr).encode()
                off = 0
                while off < len(data):
                    off += os.write(w, data[off:off + 65536])
                os.close(w)

            run_in_process(spec, cls, scenario, known, emit)
        except BaseException:
            try:
                traceback.print_exc()
            except BaseException:
                pass
            code = 3
        finally:
            os._exit(code)
    os.close(w)
    chunks = []
    deadline = time.monotonic() + timeout
    timed_out = False
    while True:
        left = deadline - time.monotonic()
        if left <= 0:
            timed_out = True
            break
        rl, _, _ = select.select([r], [], [], left)
        if not rl:
            timed_out = True
            break
        try:
            b = os.read(r, 1 << 16)
        except OSError as e:
            if e.errno == errno.EINTR:
                continue
            raise
        if not b:
            break
        chunks.append(b)
    os.close(r)
    if timed_out:
        try:
            os.kill(pid, signal.SIGKILL)
        except OSError:
            pass
    _, status = os.waitpid(pid, 0)
    if timed_out:
        return dict(verdict="harness_error", error="timeout after %.0fs" %
                    timeout)
    data = b"".join(chunks)
    if not data:
        return dict(verdict="harness_error",
                    error="child died without a result (status %r)" %
                    (status,))
    try:
        return json.loads(data.decode())
    except ValueError:
        return dict(verdict="harness_error", error="unparsable child result")


def make_scenario(spec, cls, verif_seed, index, depth=1):
    from . import depth as _depth
    seed = derive_seed(verif_seed, spec.PROPERTY,
                       cls if depth == 1 else "%s@depth%d" % (cls, depth),
                       index)
    rng = random.Random(seed)
    _depth.D = depth
    try:
        sc = spec.generate(cls, rng)
    finally:
        _depth.D = 1
    st = (sc.get("sched") or {}).get("strategy")
    if isinstance(st, dict) and rng.random() < 0.2:
        # client threads started with _thread.start_new_thread: unknown to
        # the threading module (threading.active_count() == 1 throughout)
        st["raw"] = True
    if rng.random() < getattr(spec, "OPTIMIZE_P", 0.03):
        # interpreter configuration: the library compiled as under
        # ``python -O`` (assert statements removed) for this run
        sc["_optimize"] = 1
    sc["_seed"] = seed
    sc["_index"] = index
    sc["_cls"] = cls
    if depth != 1:
        sc["_depth"] = depth
    return sc


def calibrate(spec, cls, sc, known, timeout):
    """Strategy 'pbx' (calibrated pre-emption bound): a dry run of the same
    scenario without any pre-emption measures how many scheduling decisions
    it takes; the k pre-emption points are then drawn uniformly over that
    length (minus the last task's share, where a pre-emption changes
    nothing) instead of over a guessed horizon, and written into the
    scenario as an ordinary explicit 'pb' strategy. A one-statement window
    visited v times in a run of M decisions is hit with probability about
    v/M per run, whatever M is."""
    sched = sc.get("sched") or {}
    st = sched.get("strategy") or {}
    if st.get("kind") != "pbx":
        return sc
    import copy
    dry = copy.deepcopy(sc)
    dry["sched"]["strategy"] = dict(kind="pb", at=[], raw=st.get("raw"))
    res = fork_eval(spec, cls, dry, known, timeout)
    s = res.get("sched") or {}
    m = int(s.get("decisions") or 0)
    per = s.get("per_task") or [0]
    hi = max(2, m - int(per[-1]))
    rng = random.Random(sched.get("seed", 0))
    pts = sorted(set(rng.randrange(1, hi + 1)
                     for _ in range(int(st.get("k", 1)))))
    sc["sched"]["strategy"] = dict(kind="pb", at=pts, calibrated=m,
                                   raw=st.get("raw"))
    return sc


class Agg(object):
    """Aggregated batch statistics (mergeable)."""

    def __init__(self):
        self.runs = 0
        self.ok = 0
        self.violations = []      # (cls, index, result) kept small
        self.nviol = 0
        self.harness = []
        self.steps = 0
        self.events = 0
        self.checks = 0
        self.faults = {}
        self.probes = {}
        self.counters = {}
        self.states = set()
        self.digests_nontrivial = set()
        self.digests = set()
        self.interleavings = set()
        self.known = {}
        self.per_class = {}
        self.sim_clock_span = 0
        self.switches = 0
        self.samples = []
        self.strategies = {}
        self.per_run = []

    def add(self, cls, index, res, scenario=None):
        self.runs += 1
        pc = self.per_class.setdefault(cls, dict(runs=0, nontrivial=0,
                                                 violations=0))
        pc["runs"] += 1
        v = res.get("verdict")
        if v == "harness_error":
            if len(self.harness) < 5:
                self.harness.append((cls, index, res.get("error")))
            else:
                self.harness.append((cls, index, None))
            return
        if v == "violation":
            self.nviol += 1
            pc["violations"] += 1
            if len(self.violations) < 12:
                self.violations.append((cls, index, res))
        else:
            self.ok += 1
        self.steps += res.get("steps", 0)
        self.events += res.get("events", 0)
        self.checks += res.get("checks", 0)
        self.sim_clock_span += res.get("sim_clock_span", 0)
        for k, n in res.get("faults", {}).items():
            self.faults[k] = self.faults.get(k, 0) + n
        for k, n in res.get("probes", {}).items():
            self.probes[k] = self.probes.get(k, 0) + n
        for k, n in res.get("counters", {}).items():
            self.counters[k] = self.counters.get(k, 0) + n
        for s in res.get("states", ()):
            if len(self.states) < 200000:
                self.states.add(s)
        d = res.get("digest")
        self.digests.add(d)
        if os.environ.get("VERIF_DUMP_DIGESTS"):
            self.per_run.append([cls, index, d, v])
        if res.get("nontrivial"):
            self.digests_nontrivial.add(d)
            pc["nontrivial"] += 1
        sch = res.get("sched")
        if sch:
            self.interleavings.add(sch["interleaving"])
            self.switches += sch["switches"]
        for kid, rec in res.get("known", {}).items():
            cur = self.known.setdefault(kid, dict(n=0, example=None))
            cur["n"] += rec["n"]
            if cur["example"] is None:
                cur["example"] = rec["example"]
        if scenario is not None and len(self.samples) < 3 and \
                res.get("nontrivial"):
            self.samples.append(dict(cls=cls, index=index,
                                     scenario=scenario,
                                     verdict=v, digest=d))

    def to_wire(self):
        return dict(runs=self.runs, ok=self.ok, violations=self.violations,
                    nviol=self.nviol, harness=self.harness, steps=self.steps,
                    events=self.events, checks=self.checks,
                    faults=self.faults, probes=self.probes,
                    counters=self.counters, states=sorted(self.states),
                    dn=sorted(self.digests_nontrivial),
                    dg=sorted(self.digests),
                    il=sorted(self.interleavings), known=self.known,
                    per_class=self.per_class, span=self.sim_clock_span,
                    switches=self.switches, samples=self.samples,
                    per_run=self.per_run)

    def merge_wire(self, w):
        self.runs += w["runs"]
        self.ok += w["ok"]
        self.nviol += w["nviol"]
        for v in w["violations"]:
            if len(self.violations) < 40:
                self.violations.append(tuple(v))
        self.harness.extend(tuple(h) for h in w["harness"])
        self.steps += w["steps"]
        self.events += w["events"]
        self.checks += w["checks"]
        self.sim_clock_span += w["span"]
        self.switches += w["switches"]
        for name in ("faults", "probes", "counters"):
            tgt = getattr(self, name)
            for k, n in w[name].items():
                tgt[k] = tgt.get(k, 0) + n
        self.states.update(w["states"])
        self.digests_nontrivial.update(w["dn"])
        self.digests.update(w["dg"])
        self.interleavings.update(w["il"])
        for kid, rec in w["known"].items():
            cur = self.known.setdefault(kid, dict(n=0, example=None))
            cur["n"] += rec["n"]
            if cur["example"] is None:
                cur["example"] = rec["example"]
        for c, pc in w["per_class"].items():
            cur = self.per_class.setdefault(c, dict(runs=0, nontrivial=0,
                                                    violations=0))
            for k in cur:
                cur[k] += pc[k]
        for s in w["samples"]:
            if len(self.samples) < 4:
                self.samples.append(s)
        self.per_run.extend(w.get("per_run", ()))


def _worker(spec, jobs, verif_seed, known, wfd, deadline, wid, nworkers):
    """jobs: list of (cls, n_runs, timeout, first_index[, depth]). Worker wid takes
    indices first+wid, first+wid+nworkers, ..."""
    agg = Agg()
    try:
        # the jobs are served round-robin in slices, so that a wall-clock
        # cap cuts every class (and depth) short by the same proportion
        # instead of starving the ones listed last
        state = []
        for job in jobs:
            cls, n, timeout, first = job[:4]
            depth = job[4] if len(job) > 4 else 1
            state.append([cls, n, timeout, first, depth, wid])
        slice_runs = 8
        pending = True
        while pending and time.monotonic() <= deadline:
            pending = False
            for st in state:
                cls, n, timeout, first, depth, i = st
                done = 0
                while i < n and done < slice_runs:
                    if time.monotonic() > deadline:
                        break
                    index = first + i
                    sc = make_scenario(spec, cls, verif_seed, index, depth)
                    sc = calibrate(spec, cls, sc, known, timeout)
                    res = fork_eval(spec, cls, sc, known, timeout)
                    if res.get("verdict") == "violation":
                        res["scenario"] = sc
                    agg.add(cls if depth == 1 else cls + "+deep", index, res,
                            sc)
                    i += nworkers
                    done += 1
                st[5] = i
                if i < n:
                    pending = True
        data = json.dumps(agg.to_wire(), default=repr).encode()
    except BaseException:
        data = json.dumps(dict(worker_error=traceback.format_exc())).encode()
    off = 0
    while off < len(data):
        off += os.write(wfd, data[off:off + 65536])
    os.close(wfd)


def run_batch(spec, jobs, verif_seed, known, nworkers, wall_cap):
    """Run all jobs on nworkers forked workers; returns an Agg."""
    deadline = time.monotonic() + wall_cap
    pipes = []
    sys.stdout.flush()
    sys.stderr.flush()
    for wid in range(nworkers):
        r, w = os.pipe()
        pid = os.fork()
        if pid == 0:
            code = 0
            try:
                os.close(r)
                for (rr, _p) in pipes:
                    os.close(rr)
                _worker(spec, jobs, verif_seed, known, w, deadline, wid,
                        nworkers)
            except BaseException:
                traceback.print_exc()
                code = 3
            finally:
                os._exit(code)
        os.close(w)
        pipes.append((r, pid))
    total = Agg()
    bufs = dict((r, []) for r, _ in pipes)
    open_fds = [r for r, _ in pipes]
    hard = deadline + 120
    while open_fds:
        left = hard - time.monotonic()
        if left <= 0:
            break
        rl, _, _ = select.select(open_fds, [], [], min(left, 5.0))
        for r in rl:
            b = os.read(r, 1 << 20)
            if b:
                bufs[r].append(b)
            else:
                open_fds.remove(r)
    for r, pid in pipes:
        if r in open_fds:
            try:
                os.kill(pid, signal.SIGKILL)
            except OSError:
                pass
            total.harness.append(("worker", -1, "worker overran hard cap"))
        os.close(r)
        os.waitpid(pid, 0)
        data = b"".join(bufs[r])
        if not data:
            total.harness.append(("worker", -1, "worker died"))
            continue
        w = json.loads(data.decode())
        if "worker_error" in w:
            total.harness.append(("worker", -1, w["worker_error"]))
            continue
        total.merge_wire(w)
    return total
