"""Fresh-process oracle ("restart with only durable state surviving").

A server process is forked when the helper is created -- before the run has
done anything -- and keeps the module state of a process in which nothing has
happened yet. Every question is answered in a grandchild forked from that
server, so the server itself never accumulates state. Used for: the outcome
of a call after any history equals its outcome in a process that has done
nothing (C14), and a pickled object read back by a process that has never
built one behaves like the original (C18).

Everything is synchronous and deterministic: one request, one answer.
"""
import json
import os
import struct


def _read_exact(fd, n):
    buf = b""
    while len(buf) < n:
        b = os.read(fd, n - len(buf))
        if not b:
            return None
        buf += b
    return buf


class FreshProcess(object):
    def __init__(self, answer):
        """answer(request) -> JSON-able answer; runs in a grandchild."""
        self._answer = answer
        q_r, q_w = os.pipe()
        a_r, a_w = os.pipe()
        pid = os.fork()
        if pid == 0:
            try:
                os.close(q_w)
                os.close(a_r)
                self._serve(q_r, a_w)
            finally:
                os._exit(0)
        os.close(q_r)
        os.close(a_w)
        self.pid, self.q_w, self.a_r = pid, q_w, a_r

    def _serve(self, q_r, a_w):
        from .kernel import K
        K.budget = None
        while True:
            hdr = _read_exact(q_r, 4)
            if hdr is None:
                return
            req = json.loads(_read_exact(
                q_r, struct.unpack(">I", hdr)[0]).decode())
            pid = os.fork()
            if pid == 0:
                try:
                    try:
                        out = self._answer(req)
                    except BaseException as e:
                        out = ["oracle-raised", type(e).__name__,
                               str(e)[:300]]
                    data = json.dumps(out, default=repr).encode()
                    os.write(a_w, struct.pack(">I", len(data)) + data)
                finally:
                    os._exit(0)
            os.waitpid(pid, 0)

    def ask(self, req):
        data = json.dumps(req).encode()
        os.write(self.q_w, struct.pack(">I", len(data)) + data)
        hdr = _read_exact(self.a_r, 4)
        if hdr is None:
            raise RuntimeError("fresh-process oracle died")
        n = struct.unpack(">I", hdr)[0]
        return json.loads(_read_exact(self.a_r, n).decode())

    def close(self):
        try:
            os.close(self.q_w)
            os.close(self.a_r)
            os.waitpid(self.pid, 0)
        except OSError:
            pass
