"""Scenario minimisation: ddmin over operation lists, structural
simplification supplied by the check, argument simplification, then schedule
(tape) minimisation. A candidate is kept only while the same invariant fails.
"""
import copy
import time


class Shrinker(object):
    def __init__(self, evalfn, invariant, max_evals=600, max_wall=240.0,
                 same=None):
        self.evalfn = evalfn
        self.invariant = invariant
        self.evals = 0
        self.max_evals = max_evals
        self.deadline = time.monotonic() + max_wall
        self.last_result = None
        self.same = same

    def out_of_budget(self):
        return self.evals >= self.max_evals or \
            time.monotonic() > self.deadline

    def _fails_once(self, sc):
        if self.out_of_budget():
            return False
        self.evals += 1
        r = self.evalfn(sc)
        if r.get("verdict") == "violation" and \
                r.get("invariant") == self.invariant and \
                (self.same is None or self.same(r)):
            self.last_result = r
            return True
        return False

    def fails(self, sc):
        """Returns a (possibly re-seeded) failing scenario or None."""
        if "sched" not in sc or "tape" in sc["sched"]:
            return sc if self._fails_once(sc) else None
        if self._fails_once(sc):
            return sc
        base = sc["sched"].get("seed", 0)
        for k in range(1, 5):
            c = copy.deepcopy(sc)
            c["sched"]["seed"] = (base * 1000003 + k) & 0xFFFFFFFF
            if self._fails_once(c):
                return c
        return None

    # -- ddmin over a list reachable through get/set ---------------------
    def ddmin(self, sc, getter, setter, minlen=0):
        items = getter(sc)
        n = 2
        while len(items) > minlen and not self.out_of_budget():
            chunk = max(1, len(items) // n)
            reduced = False
            i = 0
            while i < len(items):
                cand_items = items[:i] + items[i + chunk:]
                if len(cand_items) < minlen:
                    i += chunk
                    continue
                cand = copy.deepcopy(sc)
                setter(cand, copy.deepcopy(cand_items))
                got = self.fails(cand)
                if got is not None:
                    sc = got
                    items = getter(sc)
                    reduced = True
                    n = max(n - 1, 2)
                    # keep i: next chunk now sits at the same position
                else:
                    i += chunk
                if self.out_of_budget():
                    break
            if not reduced:
                if chunk == 1:
                    break
                n = min(len(items), n * 2)
        return sc

    def shrink(self, sc, simplify=None):
        sc = copy.deepcopy(sc)
        progress = True
        rounds = 0
        while progress and not self.out_of_budget() and rounds < 6:
            rounds += 1
            before = _size(sc)
            if "ops" in sc:
                sc = self.ddmin(sc, lambda s: s["ops"],
                                lambda s, v: s.__setitem__("ops", v))
            if "threads" in sc:
                # drop whole threads first, then ops inside each
                sc = self.ddmin(sc, lambda s: s["threads"],
                                lambda s, v: s.__setitem__("threads", v),
                                minlen=1)
                for ti in range(len(sc["threads"])):
                    sc = self.ddmin(
                        sc, lambda s, ti=ti: s["threads"][ti],
                        lambda s, v, ti=ti: s["threads"].__setitem__(ti, v))
            if simplify is not None:
                again = True
                while again and not self.out_of_budget():
                    again = False
                    for cand in simplify(sc):
                        got = self.fails(cand)
                        if got is not None:
                            sc = got
                            again = True
                            break
                        if self.out_of_budget():
                            break
            sc = self._shrink_ints(sc)
            progress = _size(sc) < before
        if "sched" in sc:
            sc = self._freeze_schedule(sc)
        return sc

    def _op_lists(self, sc):
        if "ops" in sc:
            yield sc["ops"]
        for t in sc.get("threads", ()):
            yield t

    def _shrink_ints(self, sc):
        nlists = len(list(self._op_lists(sc)))
        for li in range(nlists):
            j = 0
            while True:
                ops = list(self._op_lists(sc))[li]
                if j >= len(ops) or self.out_of_budget():
                    break
                op = ops[j]
                for ai in range(1, len(op)):
                    a = op[ai]
                    if isinstance(a, bool) or not isinstance(a, int):
                        continue
                    for smaller in (0, 1, a // 2, a - 1):
                        if abs(smaller) >= abs(a) or smaller == a:
                            continue
                        cand = copy.deepcopy(sc)
                        list(self._op_lists(cand))[li][j][ai] = smaller
                        got = self.fails(cand)
                        if got is not None:
                            sc = got
                            break
                        if self.out_of_budget():
                            break
                j += 1
        return sc

    def _freeze_schedule(self, sc):
        """Replace (strategy, seed) by the explicit tape of the failing run
        and minimise the tape."""
        if "tape" not in sc["sched"]:
            if not self._fails_once(sc):
                return sc
            tape = (self.last_result.get("sched") or {}).get("tape")
            if tape is None:
                return sc
            cand = copy.deepcopy(sc)
            cand["sched"] = dict(strategy=dict(kind="replay"), tape=tape)
            if not self._fails_once(cand):
                return sc       # keep the seed form, it is replayable too
            sc = cand
        keys = sorted(sc["sched"]["tape"], key=int)

        def getter(s):
            return [[k, s["sched"]["tape"][k]] for k in
                    sorted(s["sched"]["tape"], key=int)]

        def setter(s, items):
            s["sched"]["tape"] = dict((k, v) for k, v in items)

        if keys:
            sc = self.ddmin(sc, getter, setter)
        return sc


def _size(sc):
    import json
    return len(json.dumps(sc, default=repr))
