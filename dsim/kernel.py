"""Simulator kernel: simulated locks, baton-passing thread scheduler,
line-level pre-emption through sys.monitoring, step budgets.

Nothing in here draws randomness except Scheduler.choose() in generation
mode (from the run's schedule PRNG), and nothing reads a real clock.
"""
import hashlib
import os
import random
import sys
import _thread as _real_thread
import threading
import types

TOOL_ID = 4
_mon = sys.monitoring


_WRITE_LINES = {}


def write_lines(code):
    """Line numbers of a code object that store into an attribute, a
    subscript or a global (shared state, as opposed to local variables)."""
    s = _WRITE_LINES.get(code)
    if s is None:
        import dis
        s = set()
        line = None
        for ins in dis.get_instructions(code):
            if ins.starts_line is not None:
                line = ins.starts_line
            if ins.opname in ("STORE_ATTR", "STORE_SUBSCR", "STORE_GLOBAL",
                              "DELETE_ATTR", "DELETE_SUBSCR"):
                s.add(line)
        _WRITE_LINES[code] = s
    return s


def prewarm_write_lines(filenames):
    """Fill the write-line table for every code object defined in the given
    source files (done once in the parent, inherited by every forked run)."""
    import gc
    import types
    seen = set()

    def walk(code):
        if code in seen:
            return
        seen.add(code)
        write_lines(code)
        for c in code.co_consts:
            if isinstance(c, types.CodeType):
                walk(c)
    files = set(filenames)
    for obj in gc.get_objects():
        if isinstance(obj, types.FunctionType):
            code = obj.__code__
            if code.co_filename in files:
                walk(code)


class SimBaseException(BaseException):
    """Base for simulator control-flow exceptions (BaseException so that
    ``except Exception`` in code under test cannot swallow them)."""


class Deadlock(SimBaseException):
    pass


class BudgetExceeded(SimBaseException):
    pass


class SimAbort(SimBaseException):
    pass


class Finish(SimBaseException):
    """Raised in the main thread when a run ends early with a verdict."""
    def __init__(self, verdict):
        SimBaseException.__init__(self, verdict)
        self.verdict = verdict


class Kernel(object):
    """Process-global simulator state (one run at a time per process)."""

    def __init__(self):
        self.targets = frozenset()     # file names whose lines are steps
        self.steps = 0                 # line events in target files
        self.budget = None             # single-thread budget (absolute step)
        self.sched = None
        self.muted = 0
        self.monitoring = False
        self.probes = {}
        self.locks_created = 0
        self.emergency = None          # callable(verdict) -> never returns
        self.line_hook = None          # optional callable(code, line)

    def probe(self, name, n=1):
        self.probes[name] = self.probes.get(name, 0) + n

    # -- monitoring ------------------------------------------------------
    def start_monitoring(self, target_files):
        self.targets = frozenset(target_files)
        if self.monitoring:
            return
        _mon.use_tool_id(TOOL_ID, "dsim")
        _mon.register_callback(TOOL_ID, _mon.events.LINE, _on_line)
        _mon.set_events(TOOL_ID, _mon.events.LINE)
        self.monitoring = True

    def stop_monitoring(self):
        if self.monitoring:
            _mon.set_events(TOOL_ID, 0)
            _mon.register_callback(TOOL_ID, _mon.events.LINE, None)
            _mon.free_tool_id(TOOL_ID)
            self.monitoring = False

    # -- single-thread budgets --------------------------------------------
    def set_budget(self, nsteps):
        self.budget = None if nsteps is None else self.steps + nsteps

    class _Mute(object):
        def __init__(self, k):
            self.k = k

        def __enter__(self):
            self.k.muted += 1

        def __exit__(self, *a):
            self.k.muted -= 1

    def mute(self):
        return Kernel._Mute(self)


K = Kernel()


def _on_line(code, line):
    k = K
    if code.co_filename not in k.targets:
        return _mon.DISABLE
    if k.muted:
        return None
    k.steps += 1
    s = k.sched
    if s is None:
        b = k.budget
        if b is not None and k.steps > b:
            k.budget = None
            raise BudgetExceeded("step budget exceeded at %s:%d" %
                                 (code.co_name, line))
        return None
    cur = s.current
    if cur is None or _real_thread.get_ident() != cur.ident:
        return None
    s.yield_point(code.co_name, line, line in write_lines(code))
    return None


# ---------------------------------------------------------------------------
# simulated lock
# ---------------------------------------------------------------------------

class SimLock(object):
    """Stand-in for ``_thread.lock`` owned by the simulator."""

    __slots__ = ("owner", "held", "waiters", "ident", "acquisitions",
                 "__weakref__")

    def __init__(self):
        self.owner = None
        self.held = False
        self.waiters = []
        K.locks_created += 1
        self.ident = K.locks_created
        self.acquisitions = 0

    def acquire(self, blocking=True, timeout=-1):
        s = K.sched
        if s is not None and s.current is not None and \
                _real_thread.get_ident() == s.current.ident:
            return s.lock_acquire(self, blocking)
        # single-threaded world (or harness thread outside the scheduler)
        if self.held:
            if not blocking:
                return False
            K.probe("self_deadlock")
            raise Deadlock("acquire of a lock that is already held and "
                           "never released (single thread): lock#%d" %
                           self.ident)
        self.held = True
        self.owner = "main"
        self.acquisitions += 1
        return True

    def release(self):
        s = K.sched
        if s is not None and s.current is not None and \
                _real_thread.get_ident() == s.current.ident:
            return s.lock_release(self)
        if not self.held:
            raise RuntimeError("release unlocked lock")
        self.held = False
        self.owner = None

    def locked(self):
        return self.held

    def __enter__(self):
        self.acquire()
        return True

    def __exit__(self, *a):
        self.release()

    acquire_lock = acquire
    release_lock = release
    locked_lock = locked

    def __reduce__(self):
        raise TypeError("cannot pickle 'SimLock' object")

    def __reduce_ex__(self, proto):
        raise TypeError("cannot pickle 'SimLock' object")

    def __repr__(self):
        return "<SimLock #%d %s>" % (self.ident,
                                     "locked" if self.held else "unlocked")


def make_thread_shim():
    m = types.ModuleType("_thread")
    for name in dir(_real_thread):
        if not name.startswith("__"):
            setattr(m, name, getattr(_real_thread, name))
    m.allocate_lock = SimLock
    m.allocate = SimLock
    m.LockType = SimLock
    m.__dsim_shim__ = True
    return m


# ---------------------------------------------------------------------------
# scheduler
# ---------------------------------------------------------------------------

class Task(object):
    def __init__(self, tid, fn, name):
        self.id = tid
        self.fn = fn
        self.name = name
        self.sem = _real_thread.allocate_lock()
        self.sem.acquire()
        self.state = "runnable"     # runnable | blocked | done
        self.blocked_on = None
        self.ident = None
        self.thread = None
        self.fin = None         # raw threads: released when the body is over
        self.error = None
        self.steps = 0
        self.nlocks = 0         # simulated locks currently held
        self.deferred = False   # pre-empted inside a critical section
        self.last_write = False
        self.after_write = False


class Scheduler(object):
    """Decides, at every instrumented line and every lock operation, which
    task (real thread) holds the baton.

    strategy: dict(kind="random", p=...) | dict(kind="pb", k=..., horizon=...)
              | dict(kind="pct", d=..., horizon=...) | dict(kind="replay")
    tape:     {decision_index: task_id} of non-default decisions (replay mode)
    """

    def __init__(self, strategy, sched_seed=0, tape=None, max_steps=200000):
        self.strategy = dict(strategy)
        self.rng = random.Random(sched_seed)
        self.replay = tape is not None
        self.tape = dict((int(k), v) for k, v in (tape or {}).items())
        self.record = {}
        self.tasks = []
        self.current = None
        self.nchoice = 0
        self.nyield = 0
        self.max_steps = max_steps
        self.switches = 0
        self.switch_hash = hashlib.sha1()
        self.done_sem = _real_thread.allocate_lock()
        self.done_sem.acquire()
        self.verdict = None
        self.finished = False
        self.lock_blocked = 0
        self.preemptions = 0
        self._plan_ready = False
        self.on_yield = None    # optional hook(task, co_name, line) -> None

    # -- construction ------------------------------------------------------
    def spawn(self, fn, name=None):
        t = Task(len(self.tasks), fn, name or ("T%d" % len(self.tasks)))
        self.tasks.append(t)
        return t

    def _plan(self):
        st = self.strategy
        kind = st.get("kind", "random")
        n = len(self.tasks)
        if self.replay:
            self._plan_ready = True
            return
        if kind == "pb" and st.get("at") is not None:
            # explicit pre-emption points (calibrated by a dry run, see
            # runner.calibrate)
            self.preempt_at = set(int(x) for x in st["at"])
        elif kind == "pb":
            h = max(2, int(st.get("horizon", 400)))
            k = int(st.get("k", 1))
            self.preempt_at = set(self.rng.randrange(1, h) for _ in range(k))
        elif kind == "crit":
            self.crit_budget = int(st.get("k", 2))
        elif kind == "pct":
            h = max(2, int(st.get("horizon", 400)))
            d = int(st.get("d", 2))
            pr = list(range(n))
            self.rng.shuffle(pr)
            self.prio = dict((t.id, d + pr[i]) for i, t in
                             enumerate(self.tasks))
            pts = [self.rng.randrange(1, h) for _ in range(max(0, d - 1))]
            self.change_at = dict((p, d - 1 - i) for i, p in enumerate(pts))
        self._plan_ready = True

    # -- main entry (main thread) ------------------------------------------
    def run(self):
        self._plan()
        K.sched = self
        raw = bool(self.strategy.get("raw"))
        for t in self.tasks:
            if raw:
                # started with the low-level API, as C extensions, embedding
                # hosts and some pools do: such threads are NOT listed by the
                # threading module (active_count() stays 1)
                t.fin = _real_thread.allocate_lock()
                t.fin.acquire()
                _real_thread.start_new_thread(self._body, (t,))
                continue
            th = threading.Thread(target=self._body, args=(t,), daemon=True)
            t.thread = th
            th.start()
        first = self._choose(None, None)
        self.current = first
        first.sem.release()
        self.done_sem.acquire()
        K.sched = None
        self.current = None
        if self.verdict is not None:
            raise Finish(self.verdict)
        for t in self.tasks:
            if t.fin is not None:
                t.fin.acquire()
            else:
                t.thread.join()
        for t in self.tasks:
            if t.error is not None:
                raise t.error

    def _body(self, task):
        task.sem.acquire()
        task.ident = _real_thread.get_ident()
        try:
            task.fn()
        except SimAbort:
            pass
        except BaseException as e:       # harness or oracle exception
            task.error = e
        try:
            self._task_done(task)
        except SimAbort:
            pass
        finally:
            if task.fin is not None:
                task.fin.release()

    def _task_done(self, task):
        task.state = "done"
        nxt = self._choose(None, None)
        if nxt is None:
            blocked = [t for t in self.tasks if t.state == "blocked"]
            if blocked:
                self._finish(dict(
                    kind="violation", invariant="liveness.deadlock",
                    detail=dict(blocked=[(t.name, "lock#%d" %
                                          t.blocked_on.ident)
                                         for t in blocked],
                                reason="all other tasks finished")))
                return
            self.current = None
            self.finished = True
            self.done_sem.release()
            return
        self.current = nxt
        nxt.sem.release()

    def _finish(self, verdict):
        """End the run with a verdict from inside a task thread."""
        self.verdict = verdict
        if K.emergency is not None:
            K.emergency(verdict, self)      # does not return
        self.done_sem.release()
        raise SimAbort()

    # -- decisions ---------------------------------------------------------
    def _choose(self, co_name, line):
        """Return the task to run next (None when none is runnable)."""
        self.nchoice += 1
        idx = self.nchoice
        runnable = [t for t in self.tasks if t.state == "runnable"]
        if not runnable:
            return None
        cur = self.current if (self.current is not None and
                               self.current.state == "runnable") else None
        default = cur if cur is not None else runnable[0]
        if self.replay:
            tid = self.tape.get(idx)
            pick = default
            if tid is not None:
                for t in runnable:
                    if t.id == tid:
                        pick = t
                        break
        else:
            pick = self._strategy_pick(idx, cur, runnable, default)
        if pick is not default:
            self.record[idx] = pick.id
        return pick

    def _strategy_pick(self, idx, cur, runnable, default):
        st = self.strategy
        kind = st.get("kind", "random")
        rng = self.rng
        if kind == "random":
            if cur is None:
                return runnable[rng.randrange(len(runnable))]
            if len(runnable) > 1 and rng.random() < st.get("p", 0.1):
                others = [t for t in runnable if t is not cur]
                return others[rng.randrange(len(others))]
            return cur
        if kind == "pb":
            if cur is None:
                return runnable[rng.randrange(len(runnable))]
            if idx in self.preempt_at and len(runnable) > 1:
                others = [t for t in runnable if t is not cur]
                return others[rng.randrange(len(others))]
            return cur
        if kind == "crit":
            # pre-empt a thread while it is INSIDE a critical section and
            # keep it parked until nothing else can run: exposes readers
            # that do not take the lock (publication-order bugs)
            live = [t for t in runnable if not t.deferred]
            if cur is not None and not cur.deferred:
                eligible = cur.after_write or \
                    (cur.nlocks > 0 and rng.random() < 0.1)
                if eligible and self.crit_budget > 0 and \
                        len(runnable) > 1 and \
                        rng.random() < st.get("q", 0.15):
                    self.crit_budget -= 1
                    cur.deferred = True
                    others = [t for t in live if t is not cur] or \
                        [t for t in runnable if t is not cur]
                    return others[rng.randrange(len(others))]
                if len(live) > 1 and rng.random() < st.get("p", 0.02):
                    others = [t for t in live if t is not cur]
                    return others[rng.randrange(len(others))]
                return cur
            if live:
                return live[rng.randrange(len(live))]
            # only deferred tasks can run: release one of them
            t = runnable[rng.randrange(len(runnable))]
            t.deferred = False
            return t
        if kind == "pct":
            if cur is not None and idx in self.change_at:
                self.prio[cur.id] = self.change_at[idx]
            best = runnable[0]
            for t in runnable[1:]:
                if self.prio[t.id] > self.prio[best.id]:
                    best = t
            return best
        raise ValueError("unknown strategy %r" % (kind,))

    def _switch_to(self, nxt, co_name, line):
        cur = self.current
        self.switches += 1
        self.switch_hash.update(("%d>%d@%s:%s;" % (cur.id, nxt.id, co_name,
                                                   line)).encode())
        self.current = nxt
        nxt.sem.release()
        cur.sem.acquire()
        # resumed: self.current is cur again

    # -- called from the running task ---------------------------------------
    def yield_point(self, co_name, line, is_write=False):
        cur = self.current
        self.nyield += 1
        cur.steps += 1
        # "the previous line of this task stored into shared state": the
        # window right after a write is where unlocked readers go wrong
        cur.after_write = cur.last_write
        cur.last_write = is_write
        if self.nyield > self.max_steps:
            self._finish(dict(kind="violation", invariant="liveness.budget",
                              detail=dict(task=cur.name, at="%s:%s" %
                                          (co_name, line),
                                          steps=self.nyield)))
        if self.on_yield is not None:
            self.on_yield(cur, co_name, line)
        nxt = self._choose(co_name, line)
        if nxt is not cur:
            self.preemptions += 1
            self._switch_to(nxt, co_name, line)

    def lock_acquire(self, lock, blocking=True):
        cur = self.current
        self.yield_point("acquire", "lock#%d" % lock.ident)
        while lock.held:
            if not blocking:
                return False
            self.lock_blocked += 1
            K.probe("acquire_blocked")
            cur.state = "blocked"
            cur.blocked_on = lock
            lock.waiters.append(cur)
            nxt = self._choose("blocked", "lock#%d" % lock.ident)
            if nxt is None:
                blocked = [t for t in self.tasks if t.state == "blocked"]
                self._finish(dict(
                    kind="violation", invariant="liveness.deadlock",
                    detail=dict(blocked=[(t.name, "lock#%d" %
                                          t.blocked_on.ident)
                                         for t in blocked],
                                owner=getattr(lock.owner, "name",
                                              str(lock.owner)),
                                reason="no runnable task")))
            self._switch_to(nxt, "blocked", "lock#%d" % lock.ident)
        lock.held = True
        lock.owner = cur
        lock.acquisitions += 1
        cur.nlocks += 1
        return True

    def lock_release(self, lock):
        if not lock.held:
            raise RuntimeError("release unlocked lock")
        if lock.owner is not self.current:
            K.probe("release_by_nonowner")
        if getattr(lock.owner, "nlocks", 0) > 0:
            lock.owner.nlocks -= 1
        lock.held = False
        lock.owner = None
        for t in lock.waiters:
            if t.state == "blocked" and t.blocked_on is lock:
                t.state = "runnable"
                t.blocked_on = None
        del lock.waiters[:]
        self.yield_point("release", "lock#%d" % lock.ident)

    # -- reporting -----------------------------------------------------------
    def summary(self):
        return dict(decisions=self.nchoice, yields=self.nyield,
                    per_task=[t.steps for t in self.tasks],
                    switches=self.switches, preemptions=self.preemptions,
                    lock_blocked=self.lock_blocked,
                    interleaving=self.switch_hash.hexdigest()[:16],
                    tape=dict((str(k), v) for k, v in
                              sorted(self.record.items())))
