"""In-memory file system and faulty streams behind the open()/os seam of
dateutil.tz.tz.

Fault kinds (counted when they FIRE, through the `on_fault` callback):
  enoent            isfile() false / open() raises FileNotFoundError
  eacces            isfile() true, open() raises PermissionError
  vanish_after_stat isfile() true, open() raises FileNotFoundError (TOCTOU)
  eio_at(k)         the k-th read() call raises OSError(EIO)
  truncate_at(n)    the file ends after n bytes (short / torn file)
  garbage           content replaced by non-TZif bytes
  chunked(m)        legal short reads: read(n) returns at most m bytes
  unseekable        seek() raises (io.UnsupportedOperation)

Files carry stat metadata (size, mtime, inode) that the code under test can
read through os.stat / os.fstat(fileobj.fileno()) / os.path.getmtime; the
simulator decides the modification time, so "replaced by other content of the
same size within one tick of the file system's clock" (identical stat stamp)
is an event it can inject (SimFS.replace_file(..., same_stamp=True)).
"""
import errno
import io
import os as _os
import posixpath


class SimFile(object):
    """Binary stream over bytes with an optional fault plan."""

    def __init__(self, data, name=None, fault=None, on_fault=None, fs=None,
                 with_name=True):
        self._data = data
        self._pos = 0
        self._nreads = 0
        self._fault = dict(fault or {})
        self._on_fault = on_fault or (lambda kind: None)
        self._fs = fs
        self._fd = None
        self.closed = False
        if with_name and name is not None:
            self.name = name
        k = self._fault.get("kind")
        if k == "truncate_at":
            n = self._fault["n"]
            if n < len(self._data):
                self._data = self._data[:n]
                self._armed_trunc = True
            else:
                self._armed_trunc = False
        elif k == "garbage":
            self._data = bytes((i * 37 + 11) % 251 for i in
                               range(max(64, len(data))))
            self._on_fault("garbage")

    # -- reading ----------------------------------------------------------
    def read(self, n=-1):
        if self.closed:
            raise ValueError("I/O operation on closed file.")
        self._nreads += 1
        k = self._fault.get("kind")
        if k == "eio_at" and self._nreads == self._fault["k"]:
            self._on_fault("eio_at")
            raise OSError(errno.EIO, "Input/output error (injected)")
        if n is None or n < 0:
            n = len(self._data) - self._pos
        if k == "chunked" and n > self._fault["m"]:
            n = self._fault["m"]
            self._on_fault("chunked")
        out = self._data[self._pos:self._pos + n]
        if k == "truncate_at" and getattr(self, "_armed_trunc", False) and \
                len(out) < n:
            self._on_fault("truncate_at")
            self._armed_trunc = False
        self._pos += len(out)
        return out

    def readable(self):
        return True

    def seekable(self):
        return self._fault.get("kind") != "unseekable"

    def seek(self, off, whence=0):
        if self._fault.get("kind") == "unseekable":
            self._on_fault("unseekable")
            raise io.UnsupportedOperation("seek (injected)")
        if whence == 0:
            self._pos = off
        elif whence == 1:
            self._pos += off
        else:
            self._pos = len(self._data) + off
        self._pos = max(0, self._pos)
        return self._pos

    def tell(self):
        return self._pos

    def fileno(self):
        if self._fs is None or self._fd is None:
            raise io.UnsupportedOperation("fileno")
        return self._fd

    def close(self):
        if not self.closed:
            self.closed = True
            if self._fs is not None:
                self._fs.open_handles -= 1
                self._fs.fds.pop(self._fd, None)

    def __enter__(self):
        return self

    def __exit__(self, *a):
        self.close()

    def __repr__(self):
        return "<SimFile>"       # no id(): reprs may end up in histories


class _SimPath(object):
    def __init__(self, fs):
        self._fs = fs

    def isfile(self, p):
        return self._fs.isfile(p)

    def exists(self, p):
        return self._fs.isfile(p) or p.rstrip("/") in self._fs.dirs

    def isdir(self, p):
        return p.rstrip("/") in self._fs.dirs

    def getmtime(self, p):
        return self._fs.stat(p).st_mtime

    def getsize(self, p):
        return self._fs.stat(p).st_size

    def __getattr__(self, name):
        return getattr(posixpath, name)


class SimOS(object):
    """Stand-in for the ``os`` module inside dateutil.tz.tz."""

    def __init__(self, fs):
        self.path = _SimPath(fs)
        self.environ = _os.environ
        self.SEEK_CUR = _os.SEEK_CUR
        self.SEEK_SET = _os.SEEK_SET
        self.SEEK_END = _os.SEEK_END
        self.sep = "/"
        self._fs = fs

    def stat(self, p, *a, **kw):
        return self._fs.stat(p)

    def lstat(self, p, *a, **kw):
        return self._fs.stat(p)

    def fstat(self, fd):
        if fd in self._fs.fds:
            return self._fs.stat(self._fs.fds[fd])
        return _os.fstat(fd)

    def __getattr__(self, name):
        return getattr(_os, name)


class SimFS(object):
    def __init__(self, on_fault=None):
        self.files = {}
        self.meta = {}            # path -> [mtime, inode]
        self.fds = {}             # fake descriptor -> path
        self._next_fd = 10000
        self._next_ino = 1
        self.clock = 1000000000   # the file system's own (coarse) clock
        self.dirs = set()
        self.faults = {}
        self.open_handles = 0
        self.opens = 0
        self.stats = 0
        self.on_fault = on_fault or (lambda kind: None)
        self.os = SimOS(self)

    def add_file(self, path, data):
        self.files[path] = data
        self.clock += 1
        self.meta[path] = [self.clock, self._next_ino]
        self._next_ino += 1
        d = posixpath.dirname(path)
        while d and d != "/":
            self.dirs.add(d)
            d = posixpath.dirname(d)

    def replace_file(self, path, data, same_stamp=False):
        """New content under the same name. same_stamp: written in place
        within one tick of the file system clock (same inode, same mtime;
        the size is whatever len(data) is)."""
        self.files[path] = data
        if not same_stamp or path not in self.meta:
            self.clock += 1
            self.meta[path] = [self.clock, self._next_ino]
            self._next_ino += 1

    def stat(self, path):
        self.stats += 1
        if path not in self.files:
            raise FileNotFoundError(errno.ENOENT,
                                    "No such file or directory", path)
        mtime, ino = self.meta.get(path, (0, 0))
        size = len(self.files[path])
        return _os.stat_result((0o100644, ino, 1, 1, 0, 0, size, mtime,
                                mtime, mtime))

    def arm(self, path, fault):
        self.faults[path] = dict(fault)

    def disarm(self, path=None):
        if path is None:
            self.faults.clear()
        else:
            self.faults.pop(path, None)

    def isfile(self, path):
        self.stats += 1
        f = self.faults.get(path)
        if f and f["kind"] == "enoent" and path in self.files:
            self.on_fault("enoent")
            return False
        return path in self.files

    def open(self, path, mode="r", *a, **kw):
        self.opens += 1
        f = self.faults.get(path)
        kind = f["kind"] if f else None
        if path not in self.files or kind == "enoent":
            if kind == "enoent" and path in self.files:
                self.on_fault("enoent")
            raise FileNotFoundError(errno.ENOENT,
                                    "No such file or directory", path)
        if kind == "eacces":
            self.on_fault("eacces")
            raise PermissionError(errno.EACCES, "Permission denied", path)
        if kind == "vanish_after_stat":
            self.on_fault("vanish_after_stat")
            raise FileNotFoundError(errno.ENOENT,
                                    "No such file or directory", path)
        self.open_handles += 1
        sf = SimFile(self.files[path], name=path, fault=f,
                     on_fault=self.on_fault, fs=self)
        sf._fd = self._next_fd
        self._next_fd += 1
        self.fds[sf._fd] = path
        if "b" in mode:
            return sf
        return _TextOver(sf)


class _TextOver(object):
    """Minimal text-mode wrapper (tzical(path) opens with mode 'r')."""

    def __init__(self, sf):
        self._sf = sf
        self.name = getattr(sf, "name", None)

    def read(self, n=-1):
        return self._sf.read(n).decode("utf-8")

    def close(self):
        self._sf.close()

    @property
    def closed(self):
        return self._sf.closed

    def __enter__(self):
        return self

    def __exit__(self, *a):
        self.close()

    def __iter__(self):
        return iter(self.read().splitlines(True))


class ShortTextStream(object):
    """Text stream whose read(n) returns fewer characters than asked for
    while more text remains (never an empty string before the end): what a
    pipe, a socket file or a decoding wrapper may legally do. The chunk sizes
    follow a fixed cycle, so a run is repeatable."""

    CYCLE = (1, 4, 7, 16, 19, 3, 1000, 2)

    def __init__(self, text, phase=0):
        self._t = text
        self._p = 0
        self._k = phase

    def read(self, n=-1):
        if n is None or n < 0:
            out = self._t[self._p:]
            self._p = len(self._t)
            return out
        m = min(n, self.CYCLE[self._k % len(self.CYCLE)])
        self._k += 1
        out = self._t[self._p:self._p + m]
        self._p += len(out)
        return out

    def __repr__(self):
        return "<ShortTextStream>"
