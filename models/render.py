"""Date/time renderer with exact inverse, for C02 (full renderings) and C15
(partial renderings). Independent of dateutil.

A template is (name, flags, precision, has_time, fn) where fn(d) renders the
datetime d (naive) and precision is one of 'us', 's', 'min', 'h', 'day'.
`flags` are the parser flags under which the spelling is unambiguous.
Offsets are appended by render_offset() after a numeric time field only.
"""
import datetime

MONTHS3 = ["Jan", "Feb", "Mar", "Apr", "May", "Jun", "Jul", "Aug", "Sep",
           "Oct", "Nov", "Dec"]
MONTHSF = ["January", "February", "March", "April", "May", "June", "July",
           "August", "September", "October", "November", "December"]
WD3 = ["Mon", "Tue", "Wed", "Thu", "Fri", "Sat", "Sun"]
WDF = ["Monday", "Tuesday", "Wednesday", "Thursday", "Friday", "Saturday",
       "Sunday"]


def Y(d):
    return "%04d" % d.year


def h12(d):
    h = d.hour % 12
    return 12 if h == 0 else h


def ampm(d):
    return "AM" if d.hour < 12 else "PM"


def T(name, precision, fn, flags=None, time_only=False, twodigit=False):
    return dict(name=name, precision=precision, fn=fn, flags=flags or {},
                time_only=time_only, twodigit=twodigit,
                has_time=precision != "day")


TEMPLATES = [
    # ISO-like
    T("iso_T_s", "s", lambda d: "%s-%02d-%02dT%02d:%02d:%02d" % (
        Y(d), d.month, d.day, d.hour, d.minute, d.second)),
    T("iso_sp_s", "s", lambda d: "%s-%02d-%02d %02d:%02d:%02d" % (
        Y(d), d.month, d.day, d.hour, d.minute, d.second)),
    T("iso_T_us", "us", lambda d: "%s-%02d-%02dT%02d:%02d:%02d.%06d" % (
        Y(d), d.month, d.day, d.hour, d.minute, d.second, d.microsecond)),
    T("iso_sp_us_comma", "us",
      lambda d: "%s-%02d-%02d %02d:%02d:%02d,%06d" % (
          Y(d), d.month, d.day, d.hour, d.minute, d.second, d.microsecond)),
    T("iso_T_ms", "ms", lambda d: "%s-%02d-%02dT%02d:%02d:%02d.%03d" % (
        Y(d), d.month, d.day, d.hour, d.minute, d.second,
        d.microsecond // 1000)),
    T("iso_T_min", "min", lambda d: "%s-%02d-%02dT%02d:%02d" % (
        Y(d), d.month, d.day, d.hour, d.minute)),
    T("iso_date", "day", lambda d: "%s-%02d-%02d" % (Y(d), d.month, d.day)),
    # compact
    T("compact_date", "day", lambda d: "%s%02d%02d" % (Y(d), d.month, d.day)),
    T("compact_T_s", "s", lambda d: "%s%02d%02dT%02d%02d%02d" % (
        Y(d), d.month, d.day, d.hour, d.minute, d.second)),
    T("compact_14", "s", lambda d: "%s%02d%02d%02d%02d%02d" % (
        Y(d), d.month, d.day, d.hour, d.minute, d.second)),
    T("compact_12", "min", lambda d: "%s%02d%02d%02d%02d" % (
        Y(d), d.month, d.day, d.hour, d.minute)),
    T("compact_T_min", "min", lambda d: "%s%02d%02dT%02d%02d" % (
        Y(d), d.month, d.day, d.hour, d.minute)),
    T("compact_T_us", "us", lambda d: "%s%02d%02dT%02d%02d%02d.%06d" % (
        Y(d), d.month, d.day, d.hour, d.minute, d.second, d.microsecond)),
    T("compact_T_us_comma", "us",
      lambda d: "%s%02d%02dT%02d%02d%02d,%06d" % (
          Y(d), d.month, d.day, d.hour, d.minute, d.second, d.microsecond)),
    T("compact_T_ms_comma", "ms",
      lambda d: "%s%02d%02dT%02d%02d%02d,%03d" % (
          Y(d), d.month, d.day, d.hour, d.minute, d.second,
          d.microsecond // 1000)),
    T("compact_T_ms", "ms", lambda d: "%s%02d%02dT%02d%02d%02d.%03d" % (
        Y(d), d.month, d.day, d.hour, d.minute, d.second,
        d.microsecond // 1000)),
    T("iso_T_ms_comma", "ms", lambda d: "%s-%02d-%02dT%02d:%02d:%02d,%03d" % (
        Y(d), d.month, d.day, d.hour, d.minute, d.second,
        d.microsecond // 1000)),
    # every spelling the word tables list: "Sept", "hour"/"hours", ...
    T("sept_d_y_hm", "min", lambda d: "%s %02d, %s %02d:%02d" % (
        "Sept" if d.month == 9 else MONTHS3[d.month - 1], d.day, Y(d),
        d.hour, d.minute)),
    T("d_sept_y", "day", lambda d: "%02d %s %s" % (
        d.day, "Sept" if d.month == 9 else MONTHSF[d.month - 1], Y(d))),
    T("iso_hms_longwords", "s",
      lambda d: "%s-%02d-%02d %02dhour%02dminute%02dsecond" % (
          Y(d), d.month, d.day, d.hour, d.minute, d.second)),
    T("iso_hms_pluralwords", "s",
      lambda d: "%s-%02d-%02d %02dhours%02dminutes%02dseconds" % (
          Y(d), d.month, d.day, d.hour, d.minute, d.second)),
    # label-style time first, packed date last
    T("hms_words_compact_date", "s",
      lambda d: "%02dh%02dm%02ds %s%02d%02d" % (
          d.hour, d.minute, d.second, Y(d), d.month, d.day)),
    T("hm_colon_iso_date", "min", lambda d: "%02d:%02d %s-%02d-%02d" % (
        d.hour, d.minute, Y(d), d.month, d.day)),
    # fractions of one, two, four and five digits
    T("iso_sp_f1", "f1", lambda d: "%s-%02d-%02d %02d:%02d:%02d.%01d" % (
        Y(d), d.month, d.day, d.hour, d.minute, d.second,
        d.microsecond // 100000)),
    T("iso_T_f2", "f2", lambda d: "%s-%02d-%02dT%02d:%02d:%02d.%02d" % (
        Y(d), d.month, d.day, d.hour, d.minute, d.second,
        d.microsecond // 10000)),
    T("iso_sp_f4_comma", "f4",
      lambda d: "%s-%02d-%02d %02d:%02d:%02d,%04d" % (
          Y(d), d.month, d.day, d.hour, d.minute, d.second,
          d.microsecond // 100)),
    T("mon_d_y_f5", "f5", lambda d: "%s %02d, %s %02d:%02d:%02d.%05d" % (
        MONTHS3[d.month - 1], d.day, Y(d), d.hour, d.minute, d.second,
        d.microsecond // 10)),
    # ctime / RFC 2822
    T("ctime", "s", lambda d: "%s %s %2d %02d:%02d:%02d %s" % (
        WD3[d.weekday()], MONTHS3[d.month - 1], d.day, d.hour, d.minute,
        d.second, Y(d))),
    T("ctime_0", "s", lambda d: "%s %s %02d %02d:%02d:%02d %s" % (
        WD3[d.weekday()], MONTHS3[d.month - 1], d.day, d.hour, d.minute,
        d.second, Y(d))),
    T("rfc2822", "s", lambda d: "%s, %02d %s %s %02d:%02d:%02d" % (
        WD3[d.weekday()], d.day, MONTHS3[d.month - 1], Y(d), d.hour, d.minute,
        d.second)),
    # month-name forms
    T("mon_d_y_hms", "s", lambda d: "%s %02d, %s %02d:%02d:%02d" % (
        MONTHS3[d.month - 1], d.day, Y(d), d.hour, d.minute, d.second)),
    T("month_d_y", "day", lambda d: "%s %d, %s" % (
        MONTHSF[d.month - 1], d.day, Y(d))),
    T("d_mon_y_hm", "min", lambda d: "%02d %s %s %02d:%02d" % (
        d.day, MONTHS3[d.month - 1], Y(d), d.hour, d.minute)),
    T("d-mon-y", "day", lambda d: "%02d-%s-%s" % (
        d.day, MONTHS3[d.month - 1], Y(d))),
    T("wd_month_d_y_hms", "s", lambda d: "%s, %s %d, %s %02d:%02d:%02d" % (
        WDF[d.weekday()], MONTHSF[d.month - 1], d.day, Y(d), d.hour, d.minute,
        d.second)),
    # 12-hour clock
    T("mon_d_y_12h", "s", lambda d: "%s %d, %s %d:%02d:%02d %s" % (
        MONTHS3[d.month - 1], d.day, Y(d), h12(d), d.minute, d.second,
        ampm(d))),
    T("iso_12h_min", "min", lambda d: "%s-%02d-%02d %02d:%02d %s" % (
        Y(d), d.month, d.day, h12(d), d.minute, ampm(d))),
    T("iso_12h_glued", "min", lambda d: "%s-%02d-%02d %d:%02d%s" % (
        Y(d), d.month, d.day, h12(d), d.minute, ampm(d).lower())),
    T("iso_hour_ampm", "h", lambda d: "%s-%02d-%02d %d%s" % (
        Y(d), d.month, d.day, h12(d), ampm(d).lower())),
    # NNhNNmNNs
    T("iso_hms_words", "s", lambda d: "%s-%02d-%02d %02dh%02dm%02ds" % (
        Y(d), d.month, d.day, d.hour, d.minute, d.second)),
    T("iso_hm_words", "min", lambda d: "%s-%02d-%02d %dh%02dm" % (
        Y(d), d.month, d.day, d.hour, d.minute)),
    T("iso_hms_words_us", "us",
      lambda d: "%s-%02d-%02d %02dh%02dm%02d.%06ds" % (
          Y(d), d.month, d.day, d.hour, d.minute, d.second, d.microsecond)),
    # seconds with a fraction in front of the unit letter: tokens of every
    # length from "28.1" (4) to "28.12345" (8); six characters is also the
    # length of a packed HHMMSS
    T("iso_hms_words_ms", "ms",
      lambda d: "%s-%02d-%02d %02dh%02dm%02d.%03ds" % (
          Y(d), d.month, d.day, d.hour, d.minute, d.second,
          d.microsecond // 1000)),
    T("hms_words_ms_only", "ms",
      lambda d: "%02dh%02dm%02d.%03ds %s-%02d-%02d" % (
          d.hour, d.minute, d.second, d.microsecond // 1000,
          Y(d), d.month, d.day)),
    T("iso_hms_words_f1", "f1",
      lambda d: "%s-%02d-%02d %02dh%02dm%02d.%01ds" % (
          Y(d), d.month, d.day, d.hour, d.minute, d.second,
          d.microsecond // 100000)),
    T("iso_hms_words_f4", "f4",
      lambda d: "%s-%02d-%02d %02dh%02dm%02d.%04ds" % (
          Y(d), d.month, d.day, d.hour, d.minute, d.second,
          d.microsecond // 100)),
    T("iso_hms_words_f5", "f5",
      lambda d: "%s-%02d-%02d %02dh%02dm%02d.%05ds" % (
          Y(d), d.month, d.day, d.hour, d.minute, d.second,
          d.microsecond // 10)),
    # numeric dates under matching flags (four-digit year)
    T("us_slash", "s", lambda d: "%02d/%02d/%s %02d:%02d:%02d" % (
        d.month, d.day, Y(d), d.hour, d.minute, d.second)),
    T("us_dash_date", "day", lambda d: "%02d-%02d-%s" % (
        d.month, d.day, Y(d))),
    T("eu_slash", "s", lambda d: "%02d/%02d/%s %02d:%02d:%02d" % (
        d.day, d.month, Y(d), d.hour, d.minute, d.second),
      flags=dict(dayfirst=True)),
    T("eu_dot", "min", lambda d: "%02d.%02d.%s %02d:%02d" % (
        d.day, d.month, Y(d), d.hour, d.minute), flags=dict(dayfirst=True)),
    T("yf_slash", "s", lambda d: "%s/%02d/%02d %02d:%02d:%02d" % (
        Y(d), d.month, d.day, d.hour, d.minute, d.second),
      flags=dict(yearfirst=True)),
    T("yf_slash_noflag", "day", lambda d: "%s/%02d/%02d" % (
        Y(d), d.month, d.day)),
    # more month-name and numeric spellings
    T("d_month_y", "day", lambda d: "%d %s %s" % (
        d.day, MONTHSF[d.month - 1], Y(d))),
    T("month_d_y_nocomma_hm", "min", lambda d: "%s %d %s %02d:%02d" % (
        MONTHSF[d.month - 1], d.day, Y(d), d.hour, d.minute)),
    T("mon-d-y", "day", lambda d: "%s-%02d-%s" % (
        MONTHS3[d.month - 1], d.day, Y(d))),
    T("y_mon_d_hms", "s", lambda d: "%s %s %02d %02d:%02d:%02d" % (
        Y(d), MONTHS3[d.month - 1], d.day, d.hour, d.minute, d.second)),
    T("yf_dot_date", "day", lambda d: "%s.%02d.%02d" % (
        Y(d), d.month, d.day)),
    T("iso_sp_min", "min", lambda d: "%s-%02d-%02d %02d:%02d" % (
        Y(d), d.month, d.day, d.hour, d.minute)),
    T("wd_iso_s", "s", lambda d: "%s %s-%02d-%02d %02d:%02d:%02d" % (
        WD3[d.weekday()], Y(d), d.month, d.day, d.hour, d.minute, d.second)),
    T("time_first_iso", "s", lambda d: "%02d:%02d:%02d %s-%02d-%02d" % (
        d.hour, d.minute, d.second, Y(d), d.month, d.day)),
    T("iso_T_s_lower", "s", lambda d: ("%s-%02d-%02dt%02d:%02d:%02d" % (
        Y(d), d.month, d.day, d.hour, d.minute, d.second))),
    # two-digit years (pivot clause)
    T("us_slash_yy", "min", lambda d: "%02d/%02d/%02d %02d:%02d" % (
        d.month, d.day, d.year % 100, d.hour, d.minute), twodigit=True),
    T("eu_slash_yy", "min", lambda d: "%02d/%02d/%02d %02d:%02d" % (
        d.day, d.month, d.year % 100, d.hour, d.minute),
      flags=dict(dayfirst=True), twodigit=True),
    T("yf_dash_yy", "min", lambda d: "%02d-%02d-%02d %02d:%02d" % (
        d.year % 100, d.month, d.day, d.hour, d.minute),
      flags=dict(yearfirst=True), twodigit=True),
    T("d_mon_yy", "day", lambda d: "%02d %s %02d" % (
        d.day, MONTHS3[d.month - 1], d.year % 100), twodigit=True),
]

BY_NAME = dict((t["name"], t) for t in TEMPLATES)

OFFSET_FORMS = ["+HH:MM", "+HHMM", "+HH", " +HH:MM", " +HHMM", "Z", " Z",
                " UTC", " +HH:MM_neg0"]


def render_offset(form, off_seconds):
    """Text of the offset suffix, or None when the form cannot express it.
    'Z'/'UTC' forms denote zero."""
    if form in ("Z", " Z", " UTC"):
        return form if off_seconds == 0 else None
    sign = "-" if off_seconds < 0 else "+"
    a = abs(off_seconds)
    hh, mm = a // 3600, (a % 3600) // 60
    if a % 60:
        return None
    lead = " " if form.startswith(" ") else ""
    core = form.strip()
    if core == "+HH:MM":
        return "%s%s%02d:%02d" % (lead, sign, hh, mm)
    if core == "+HH:MM_neg0":
        if off_seconds != 0:
            return None
        return "%s-00:00" % lead
    if core == "+HHMM":
        return "%s%s%02d%02d" % (lead, sign, hh, mm)
    if core == "+HH":
        if mm:
            return None
        return "%s%s%02d" % (lead, sign, hh)
    return None


def truncate(d, precision):
    if precision == "us":
        return d
    if precision == "ms":
        return d.replace(microsecond=d.microsecond // 1000 * 1000)
    if precision in ("f1", "f2", "f4", "f5"):
        q = 10 ** (6 - int(precision[1]))
        return d.replace(microsecond=d.microsecond // q * q)
    if precision == "s":
        return d.replace(microsecond=0)
    if precision == "min":
        return d.replace(second=0, microsecond=0)
    if precision == "h":
        return d.replace(minute=0, second=0, microsecond=0)
    return d.replace(hour=0, minute=0, second=0, microsecond=0)


def pivot_year(yy, current_year):
    """The unique year congruent to yy mod 100 within -50..+49 of
    current_year."""
    century = current_year // 100 * 100
    y = century + yy
    if y >= current_year + 50:
        y -= 100
    elif y < current_year - 50:
        y += 100
    return y
