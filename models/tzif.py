"""TZif writer and an independent reference reader (RFC 8536, version-1 data
block, which is the block dateutil.tz.tzfile decodes).

The reader is deliberately written from the RFC, not from dateutil: it
bisects the UTC transition list and never builds a wall-time list.
"""
import bisect
import struct


def make_tzif(trans, idx, types, isstd=None, isgmt=None, leaps=(),
              version=1, v2_footer=b""):
    """trans: sorted UTC transition times (int, 32-bit range)
    idx:   type index per transition
    types: list of (utoff, isdst, abbr)
    isstd/isgmt: optional indicator lists (len 0 or len(types))
    leaps: list of (time, total) pairs
    version: 1 or 2 (2 appends a 64-bit block with the same data + footer)"""
    assert len(trans) == len(idx)
    abbrs = []
    table = b""
    abbrind = []
    for (_o, _d, a) in types:
        ab = a.encode("ascii") + b"\x00"
        pos = table.find(ab)
        if pos < 0:
            pos = len(table)
            table += ab
        abbrind.append(pos)
    isstd = list(isstd or [])
    isgmt = list(isgmt or [])

    def block(timefmt, leapfmt, ver):
        hdr = b"TZif" + (b"\x00" if ver == 1 else str(ver).encode()) + \
            b"\x00" * 15
        hdr += struct.pack(">6l", len(isgmt), len(isstd), len(leaps),
                           len(trans), len(types), len(table))
        body = b"".join(struct.pack(timefmt, t) for t in trans)
        body += bytes(idx)
        for (off, isdst, _a), ai in zip(types, abbrind):
            body += struct.pack(">lBB", off, 1 if isdst else 0, ai)
        body += table
        for (t, n) in leaps:
            body += struct.pack(leapfmt, t, n)
        body += bytes(isstd)
        body += bytes(isgmt)
        return hdr + body

    out = block(">l", ">ll", version)
    if version >= 2:
        out += block(">q", ">ql", version)
        out += b"\n" + v2_footer + b"\n"
    return out


class Ref(object):
    """Reference decoding of the version-1 block."""

    def __init__(self, data):
        if data[:4] != b"TZif":
            raise ValueError("magic")
        (gmtcnt, stdcnt, leapcnt, timecnt, typecnt,
         charcnt) = struct.unpack(">6l", data[20:44])
        p = 44
        self.trans = list(struct.unpack(">%dl" % timecnt,
                                        data[p:p + 4 * timecnt]))
        p += 4 * timecnt
        self.idx = list(data[p:p + timecnt])
        p += timecnt
        raw = []
        for _ in range(typecnt):
            raw.append(struct.unpack(">lBB", data[p:p + 6]))
            p += 6
        chars = data[p:p + charcnt]
        p += charcnt
        self.leaps = leapcnt
        p += 8 * leapcnt
        self.isstd = list(data[p:p + stdcnt])
        p += stdcnt
        self.isgmt = list(data[p:p + gmtcnt])
        p += gmtcnt
        self.v1_end = p
        self.types = []
        for off, isdst, ai in raw:
            end = chars.find(b"\x00", ai)
            self.types.append((off, bool(isdst),
                               chars[ai:end].decode("ascii")))

    def first_standard(self):
        for t in self.types:
            if not t[1]:
                return t
        return self.types[0]

    def at(self, ts):
        """(utoff, isdst, abbr) in force at UTC timestamp ts, for ts before
        the LAST transition; None at/after it (outside the property)."""
        if not self.trans:
            return None
        if ts >= self.trans[-1]:
            return None
        i = bisect.bisect_right(self.trans, ts) - 1
        if i < 0:
            return self.first_standard()
        return self.types[self.idx[i]]
