"""POSIX TZ rule model: spec generation, TZ-string rendering, and evaluation
of (utcoffset, abbreviation, isdst) at a UTC instant. Independent of
dateutil (plain calendar arithmetic).

spec = dict(std=name, stdoff=seconds east of UTC, dst=name or None,
            dstoff=seconds east, start=rule, end=rule)
rule = ["M", month, week(1..5), weekday(0=Sunday), time_s]
     | ["J", n(1..365, Feb 29 never counted), time_s]
     | ["N", n(0..365, leap day counted), time_s]
time_s: seconds after local midnight (start: local standard time,
        end: local daylight time), 0..86400
"""
import calendar
import datetime

EPOCH = datetime.datetime(1970, 1, 1)


def rule_date(rule, year):
    k = rule[0]
    if k == "M":
        _, m, w, d, _t = rule
        # weekday d: 0 = Sunday ... 6 = Saturday; python: Monday = 0
        pyd = (d - 1) % 7
        if w == 5:
            last = calendar.monthrange(year, m)[1]
            dt = datetime.date(year, m, last)
            back = (dt.weekday() - pyd) % 7
            return dt - datetime.timedelta(days=back)
        first = datetime.date(year, m, 1)
        fwd = (pyd - first.weekday()) % 7
        return first + datetime.timedelta(days=fwd + 7 * (w - 1))
    if k == "J":
        n = rule[1]
        # 1..365, 29 Feb is never counted: day 60 is always 1 March
        base = datetime.date(year, 1, 1) + datetime.timedelta(days=n - 1)
        if calendar.isleap(year) and n >= 60:
            base += datetime.timedelta(days=1)
        return base
    if k == "N":
        return datetime.date(year, 1, 1) + datetime.timedelta(days=rule[1])
    raise ValueError(rule)


def transitions_utc(spec, year):
    """(start_utc, end_utc) as epoch seconds for the rule year `year`."""
    sd = rule_date(spec["start"], year)
    ed = rule_date(spec["end"], year)
    s_local = datetime.datetime(sd.year, sd.month, sd.day) + \
        datetime.timedelta(seconds=spec["start"][-1])
    e_local = datetime.datetime(ed.year, ed.month, ed.day) + \
        datetime.timedelta(seconds=spec["end"][-1])
    s = int((s_local - EPOCH).total_seconds()) - spec["stdoff"]
    e = int((e_local - EPOCH).total_seconds()) - spec["dstoff"]
    return s, e


def at(spec, ts):
    """(utcoffset, abbr, isdst) at UTC epoch seconds ts."""
    if not spec.get("dst"):
        return spec["stdoff"], spec["std"], False
    year = (EPOCH + datetime.timedelta(seconds=ts + spec["stdoff"])).year
    s, e = transitions_utc(spec, year)
    if s < e:
        isdst = s <= ts < e
    else:
        isdst = not (e <= ts < s)
    if isdst:
        return spec["dstoff"], spec["dst"], True
    return spec["stdoff"], spec["std"], False


def fmt_off(seconds_east):
    """POSIX offset text: west positive."""
    w = -seconds_east
    sign = "-" if w < 0 else ""
    a = abs(w)
    h, m, s = a // 3600, (a % 3600) // 60, a % 60
    if s:
        return "%s%d:%02d:%02d" % (sign, h, m, s)
    if m:
        return "%s%d:%02d" % (sign, h, m)
    return "%s%d" % (sign, h)


def fmt_time(t):
    h, m, s = t // 3600, (t % 3600) // 60, t % 60
    if s:
        return "%d:%02d:%02d" % (h, m, s)
    if m:
        return "%d:%02d" % (h, m)
    return "%d" % h


def fmt_rule(rule, always_time=False):
    k = rule[0]
    if k == "M":
        body = "M%d.%d.%d" % (rule[1], rule[2], rule[3])
    elif k == "J":
        body = "J%d" % rule[1]
    else:
        body = "%d" % rule[1]
    t = rule[-1]
    if t == 7200 and not always_time:
        return body
    return body + "/" + fmt_time(t)


def tz_string(spec, explicit_dstoff=None, always_time=False):
    s = spec["std"] + fmt_off(spec["stdoff"])
    if not spec.get("dst"):
        return s
    s += spec["dst"]
    default = spec["dstoff"] == spec["stdoff"] + 3600
    if explicit_dstoff or (explicit_dstoff is None and not default):
        s += fmt_off(spec["dstoff"])
    s += "," + fmt_rule(spec["start"], always_time)
    s += "," + fmt_rule(spec["end"], always_time)
    return s


NAMES = ["AAA", "BBBB", "CCCCC", "EST", "EDT", "WET", "WEST", "NZST", "NZDT",
         "XST", "XDT", "QQT", "QQST"]


def gen_rule(rng, lo_month, hi_month, allow_forms=("M", "M", "M", "J", "N")):
    k = rng.choice(allow_forms)
    t = rng.choice([7200, 7200, 3600, 0, 10800, 1800, 5400, 86400, 82800,
                    9000, 7200, 3600, 7230, 3615, 45])
    if lo_month <= 2 <= hi_month and rng.random() < 0.08:
        # the end of February: the last <weekday> of February where 29
        # February is that weekday (2000, 1972, 2400: Tuesday; 2024:
        # Thursday; 2004: Sunday), and the year days around the leap day
        if rng.random() < 0.5:
            return ["M", 2, 5, rng.choice([2, 2, 4, 0]), t]
        n = rng.choice([58, 59, 59, 60])
        return ["J", n + 1, t] if rng.random() < 0.4 else ["N", n, t]
    if k == "M":
        return ["M", rng.randrange(lo_month, hi_month + 1),
                rng.choice([1, 2, 3, 4, 5]), rng.randrange(7), t]
    # day of year inside [lo_month, hi_month]
    lo = (datetime.date(2001, lo_month, 1) - datetime.date(2001, 1, 1)).days
    hi = (datetime.date(2001, hi_month, 28) - datetime.date(2001, 1, 1)).days
    n = rng.randrange(lo, hi + 1)
    if k == "J":
        return ["J", n + 1, t]
    return ["N", n, t]


def gen_spec(rng, with_dst=True, gmt_p=0.0):
    std_name, dst_name = rng.sample(NAMES, 2)
    if gmt_p and rng.random() < gmt_p:
        # a standard zone called GMT or UTC: dateutil's tzstr reads its
        # offset with the opposite sign unless posix_offset is asked for
        std_name = rng.choice(["GMT", "UTC"])
    stdoff = rng.choice([0, 3600, -18000, 19800, -12600, 43200, -39600,
                         rng.randrange(-14 * 4, 14 * 4 + 1) * 900])
    spec = dict(std=std_name, stdoff=stdoff, dst=None)
    if not with_dst:
        return spec
    spec["dst"] = dst_name
    spec["dstoff"] = stdoff + (3600 if std_name in ("GMT", "UTC") else
                               rng.choice([3600, 3600, 3600, 1800, 7200]))
    # start and end at least a month apart and a month from the year boundary
    a = gen_rule(rng, 2, 5)
    b = gen_rule(rng, 8, 11)
    if rng.random() < 0.5:
        spec["start"], spec["end"] = a, b        # northern
    else:
        spec["start"], spec["end"] = b, a        # southern
    return spec


def gen_sibling(rng, spec):
    """A specification that differs from `spec` in exactly one aspect (names
    never coincide, so the two are different TZ strings): what a memo keyed
    on part of the specification would confuse."""
    sib = dict(spec)
    for k in ("start", "end"):
        if k in sib:
            sib[k] = list(sib[k])
    std2, dst2 = rng.sample([n for n in NAMES
                             if n not in (spec["std"], spec.get("dst"))], 2)
    if not spec.get("dst"):
        sib["std"] = std2
        sib["stdoff"] = spec["stdoff"] + rng.choice([-3600, 1800, 3600])
        return sib
    how = rng.choice(["stdoff_keep_dstoff", "stdoff_keep_dstoff",
                      "shift_both", "names_only", "start_time", "end_time",
                      "saving", "end_rule"])
    if rng.random() < 0.7 or how == "names_only":
        sib["std"], sib["dst"] = std2, dst2
    sav = spec["dstoff"] - spec["stdoff"]
    if how == "stdoff_keep_dstoff":
        # same daylight offset, other standard offset: other saving
        new_sav = rng.choice([x for x in (1800, 3600, 7200) if x != sav])
        sib["stdoff"] = spec["dstoff"] - new_sav
    elif how == "shift_both":
        d = rng.choice([-3600, 1800, 3600, 7200])
        sib["stdoff"] = spec["stdoff"] + d
        sib["dstoff"] = spec["dstoff"] + d
    elif how == "saving":
        new_sav = rng.choice([x for x in (1800, 3600, 7200) if x != sav])
        sib["dstoff"] = spec["stdoff"] + new_sav
    elif how in ("start_time", "end_time"):
        k = how.split("_")[0]
        times = [t for t in (0, 1800, 3600, 7200, 10800, 82800, 86400)
                 if t != sib[k][-1]]
        sib[k][-1] = rng.choice(times)
    elif how == "end_rule":
        a, b = transitions_utc(spec, 2023)
        lo, hi = (8, 11) if a < b else (2, 5)
        sib["end"] = gen_rule(rng, lo, hi)
    if abs(sib["stdoff"]) > 14 * 3600 or abs(sib["dstoff"]) > 15 * 3600:
        return gen_sibling(rng, spec)
    if sib["std"] == spec["std"] and sib.get("dst") == spec.get("dst") and \
            tz_string(sib) == tz_string(spec):
        sib["std"], sib["dst"] = std2, dst2
    return sib


def dateutil_reading(spec):
    """The specification as dateutil's tzstr reads its TZ string WITHOUT
    posix_offset: for a standard zone named GMT or UTC the standard offset
    has the opposite sign ('GMT+3' is three hours AHEAD of UTC), and a
    daylight offset that is not spelled out is one hour more than that.
    Returns the spec itself for other names, None when the string spells out
    a daylight offset next to a GMT/UTC name (no documented reading)."""
    if spec["std"] not in ("GMT", "UTC") or spec["stdoff"] == 0:
        return spec
    out = dict(spec, stdoff=-spec["stdoff"])
    if spec.get("dst"):
        if spec["dstoff"] != spec["stdoff"] + 3600:
            return None
        out["dstoff"] = out["stdoff"] + 3600
    return out


def rule_times_in_day(spec):
    """True when both rule times, expressed in local STANDARD time (which is
    how dateutil's relativedelta rules are written), fall inside [0, 24h)."""
    if not spec.get("dst"):
        return True
    saving = spec["dstoff"] - spec["stdoff"]
    st = spec["start"][-1]
    et = spec["end"][-1] - saving
    return 0 <= st < 86400 and 0 <= et < 86400
