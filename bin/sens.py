#!/venv/bin/python
"""Sensitivity runner: apply a patch (or check out a revision) to a scratch
copy of /repo/src outside /repo and /verif, run checks against it through
VERIF_REPO_SRC, report which checks raise VIOLATION, remove the copy.

  sens.py --patch X.diff --props C11,C12 [--tier quick] [--runs N]
  sens.py --rev <git rev> --props ...
"""
import argparse
import os
import shutil
import subprocess
import sys
import tempfile

VERIF = os.path.dirname(os.path.dirname(os.path.abspath(__file__)))


def main():
    ap = argparse.ArgumentParser()
    ap.add_argument("--patch")
    ap.add_argument("--rev")
    ap.add_argument("--props", required=True)
    ap.add_argument("--tier", default="quick")
    ap.add_argument("--runs", type=int, default=0)
    ap.add_argument("--cls", default=None)
    ap.add_argument("--keep-evidence", action="store_true")
    args = ap.parse_args()
    scratch = tempfile.mkdtemp(prefix="dsim-sens-")
    rc_all = {}
    try:
        if args.rev:
            subprocess.check_call(
                "git -C /repo archive %s src | tar -x -C %s" %
                (args.rev, scratch), shell=True)
        else:
            shutil.copytree("/repo/src", os.path.join(scratch, "src"),
                            ignore=shutil.ignore_patterns("__pycache__"))
        if args.patch:
            subprocess.check_call(["patch", "-s", "-p1", "-d", scratch, "-i",
                                   os.path.abspath(args.patch)])
        env = dict(os.environ)
        env["VERIF_REPO_SRC"] = os.path.join(scratch, "src")
        evdir = os.path.join(VERIF, "evidence")
        for prop in args.props.split(","):
            evf = os.path.join(evdir, prop + ".json")
            saved = None
            if os.path.exists(evf):
                saved = open(evf, "rb").read()
            cmd = [sys.executable, os.path.join(VERIF, "bin", "check.py"),
                   "check", prop, "--tier", args.tier, "--shrink-evals", "150",
                   "--shrink-wall", "40"]
            if args.runs:
                cmd += ["--runs", str(args.runs)]
            if args.cls:
                cmd += ["--cls", args.cls]
            p = subprocess.run(cmd, env=env, capture_output=True, text=True)
            viol = [l for l in p.stdout.splitlines()
                    if l.startswith("VIOLATION") or l.startswith("  invariant")
                    or l.startswith("HARNESS")]
            print("== %s rc=%d" % (prop, p.returncode))
            for l in viol[:6]:
                print("   " + l[:300])
            print("   " + p.stdout.strip().splitlines()[-1][:300])
            rc_all[prop] = p.returncode
            if saved is not None and not args.keep_evidence:
                open(evf, "wb").write(saved)
    finally:
        shutil.rmtree(scratch, ignore_errors=True)
    caught = [p for p, rc in rc_all.items() if rc == 1]
    print("CAUGHT-BY: %s" % (",".join(caught) or "none"))
    return 0


if __name__ == "__main__":
    sys.exit(main())
