#!/bin/bash
# Regression pass: every seeded change against the quick check of its
# property (and of the neighbouring property recorded as catching it) at a
# reduced run budget. usage: seedall.sh [scale]
scale=${1:-0.4}
here=$(cd "$(dirname "$0")/.." && pwd)
for d in $(ls $here/seeded | sort -V); do
  props=$(/venv/bin/python -c "
import json,sys
m=json.load(open('$here/seeded/$d/meta.json'))
c=m.get('caught_by') or [m['property']]
print(','.join(c[:1] if m['property'] in c else c[:1]))")
  /venv/bin/python $here/bin/seedcheck.py run $d --props $props --scale $scale 2>&1 | tail -1 | cut -c1-200
done
