#!/venv/bin/python
"""Run the sensitivity catalogue: every mutation is applied to a scratch copy
of /repo/src under /tmp (never to /repo), the repository's own test-suite is
run against the copy (does it notice?), then the quick checks of the expected
properties (and, with --all-props, of every claimed property, to look for
false alarms). Results go to /verif/sensitivity/results.json.

  sensrun.py [--only ID,ID] [--scale 0.3] [--all-props] [--skip-tests]
"""
import argparse
import json
import os
import shutil
import subprocess
import sys
import tempfile
import time

VERIF = os.path.dirname(os.path.dirname(os.path.abspath(__file__)))
sys.path.insert(0, VERIF)
from sensitivity.catalogue import M  # noqa: E402

CLAIMED = ["C02", "C06", "C08", "C10", "C11", "C12", "C14", "C15", "C17",
           "C18"]


def run_tests(scratch):
    """Number of passed tests of the repo's suite against the scratch src."""
    tests = os.path.join(scratch, "tests")
    if not os.path.exists(tests):
        shutil.copytree("/repo/tests", tests)
        for f in ("setup.cfg", "conftest.py", "pyproject.toml"):
            if os.path.exists("/repo/" + f):
                shutil.copy("/repo/" + f, scratch)
    env = dict(os.environ, PYTHONPATH=os.path.join(scratch, "src"))
    p = subprocess.run(
        [sys.executable, "-m", "pytest", "-q", "-p", "no:cacheprovider",
         "--timeout=20", "--continue-on-collection-errors", "tests"],
        cwd=scratch, env=env, capture_output=True, text=True)
    tail = p.stdout.strip().splitlines()[-1] if p.stdout.strip() else ""
    # the clean tree gives "1423 passed" for the tests/ directory alone (the
    # 1424th stable test lives under docs/); fewer means the suite notices
    import re
    m = re.search(r"(\d+) passed", tail)
    n = int(m.group(1)) if m else -1
    return "%d passed (%s)" % (n, "suite unchanged" if n == 1423
                               else "suite notices")


def main():
    ap = argparse.ArgumentParser()
    ap.add_argument("--only", default=None)
    ap.add_argument("--scale", default="0.3")
    ap.add_argument("--all-props", action="store_true")
    ap.add_argument("--skip-tests", action="store_true")
    args = ap.parse_args()
    only = set(args.only.split(",")) if args.only else None
    out_path = os.path.join(VERIF, "sensitivity", "results.json")
    results = {}
    if os.path.exists(out_path):
        results = json.load(open(out_path))
    for mut in M:
        if only and mut["id"] not in only:
            continue
        scratch = tempfile.mkdtemp(prefix="dsim-mut-")
        try:
            shutil.copytree("/repo/src", os.path.join(scratch, "src"),
                            ignore=shutil.ignore_patterns("__pycache__"))
            path = os.path.join(scratch, "src", "dateutil", mut["file"])
            s = open(path).read()
            if s.count(mut["old"]) != 1:
                print("%s: pattern found %d times - SKIPPED" %
                      (mut["id"], s.count(mut["old"])))
                results[mut["id"]] = dict(error="pattern count %d" %
                                          s.count(mut["old"]))
                continue
            open(path, "w").write(s.replace(mut["old"], mut["new"]))
            rec = dict(note=mut["note"], file=mut["file"],
                       expect=mut["expect"], checks={})
            if not args.skip_tests:
                rec["test_suite"] = run_tests(scratch)
            props = CLAIMED if args.all_props else (mut["expect"] or CLAIMED)
            env = dict(os.environ, VERIF_REPO_SRC=os.path.join(scratch, "src"),
                       VERIF_RUNS_SCALE=args.scale)
            for prop in props:
                evf = os.path.join(VERIF, "evidence", prop + ".json")
                saved = open(evf, "rb").read() if os.path.exists(evf) else None
                t0 = time.time()
                p = subprocess.run(
                    [sys.executable, os.path.join(VERIF, "bin", "check.py"),
                     "check", prop, "--tier", "quick", "--shrink-evals", "60",
                     "--shrink-wall", "20"],
                    env=env, capture_output=True, text=True)
                inv = [l.strip()[:160] for l in p.stdout.splitlines()
                       if l.startswith("  invariant=")]
                last = p.stdout.strip().splitlines()[-1] if p.stdout.strip() \
                    else ""
                rec["checks"][prop] = dict(rc=p.returncode,
                                           wall=round(time.time() - t0, 1),
                                           first=inv[:1], summary=last[:200])
                if saved is not None:
                    open(evf, "wb").write(saved)
            caught = [p for p, r in rec["checks"].items() if r["rc"] == 1]
            harness = [p for p, r in rec["checks"].items() if r["rc"] == 2]
            rec["caught_by"] = caught
            rec["harness_errors"] = harness
            results[mut["id"]] = rec
            print("%s [%s] expect=%s caught_by=%s harness=%s tests: %s" % (
                mut["id"], mut["note"][:50], mut["expect"], caught, harness,
                rec.get("test_suite", "-")))
            sys.stdout.flush()
            with open(out_path, "w") as f:
                json.dump(results, f, indent=1, sort_keys=True)
        finally:
            shutil.rmtree(scratch, ignore_errors=True)
    return 0


if __name__ == "__main__":
    sys.exit(main())
