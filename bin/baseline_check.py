#!/venv/bin/python
"""Run the repository's pinned test command (guard off) and compare with
/root/.vp/BASELINE.json: every stable_pass test must still pass."""
import json
import os
import subprocess
import sys
import tempfile
import xml.etree.ElementTree as ET

base = json.load(open("/root/.vp/BASELINE.json"))
fd, out = tempfile.mkstemp(suffix=".junit.xml")
os.close(fd)
env = dict(os.environ)
env.pop("DATEUTIL_VERIF", None)
cmd = base["cmd"].replace("<file>", out)
subprocess.call(cmd, shell=True, env=env, stdout=subprocess.DEVNULL,
                stderr=subprocess.DEVNULL)
passed = set()
for tc in ET.parse(out).getroot().iter("testcase"):
    if not any(c.tag in ("failure", "error", "skipped") for c in tc):
        passed.add("%s::%s" % (tc.get("classname"), tc.get("name")))
os.unlink(out)
want = set(base["stable_pass"])
missing = sorted(want - passed)
print("baseline: %d stable tests, %d passed now, %d missing" %
      (len(want), len(want & passed), len(missing)))
for m in missing[:20]:
    print("  MISSING", m)
sys.exit(1 if missing else 0)
