#!/venv/bin/python
"""Confirm a seeded change and run the checks against it.

  seedcheck.py import <prop> <n> <src_dir>   copy <src_dir>/patch<n>.diff etc.
                                             into /verif/seeded/<prop>-<n>/
                                             after confirming it: applies to a
                                             scratch worktree of /repo HEAD,
                                             test-suite unchanged, demo fails
                                             with it and passes without it
  seedcheck.py run <id> [--props C11,C12] [--scale 1.0]
                                             run quick checks against a scratch
                                             copy with the patch applied;
                                             record which checks catch it
Nothing is ever applied to /repo itself.
"""
import argparse
import json
import os
import shutil
import subprocess
import sys
import tempfile

VERIF = os.path.dirname(os.path.dirname(os.path.abspath(__file__)))
SEEDED = os.path.join(VERIF, "seeded")
PY = sys.executable


def sh(cmd, **kw):
    return subprocess.run(cmd, shell=isinstance(cmd, str),
                          capture_output=True, text=True, **kw)


def suite(wt):
    p = sh("cd %s && PYTHONPATH=%s/src %s -m pytest -q -p no:cacheprovider "
           "--timeout=900 --continue-on-collection-errors -rfE 2>&1" %
           (wt, wt, PY))
    lines = p.stdout.strip().splitlines()
    tail = lines[-1] if lines else ""
    failed = sorted(l.split(" - ")[0] for l in lines
                    if l.startswith("FAILED") or l.startswith("ERROR"))
    return tail, failed


def demo(wt, path):
    try:
        p = subprocess.run([PY, path], cwd=wt, capture_output=True, text=True,
                           env=dict(os.environ, PYTHONPATH=wt + "/src"),
                           timeout=300)
        return p.returncode
    except subprocess.TimeoutExpired:
        return "timeout"


def cmd_import(args):
    sid = "%s-%s" % (args.prop, args.as_n or args.n)
    src = args.src
    patch = os.path.join(src, "patch%s.diff" % args.n)
    dem = os.path.join(src, "demo%s.py" % args.n)
    notes = os.path.join(src, "notes%s.md" % args.n)
    # the demonstrations assert the path of the worktree they were written
    # in, so the confirmation runs in that same scratch worktree (reset to the
    # clean tree first and afterwards)
    wt = os.path.dirname(os.path.abspath(src.rstrip("/")))
    assert wt.startswith("/tmp/"), wt
    sh(["git", "-C", wt, "checkout", "--", "src"])
    meta = dict(id=sid, property=args.prop, confirmed=False)
    try:
        shutil.copy(dem, os.path.join(wt, "demo_seed.py"))
        clean_tail, clean_failed = suite(wt)
        rc_clean = demo(wt, "demo_seed.py")
        a = sh(["git", "-C", wt, "apply", patch])
        if a.returncode != 0:
            meta["error"] = "patch does not apply: " + a.stderr[:300]
            print(json.dumps(meta, indent=1))
            return 1
        tail, failed = suite(wt)
        rc_patched = demo(wt, "demo_seed.py")
        meta.update(suite_clean=clean_tail, suite_patched=tail,
                    failing_set_identical=(failed == clean_failed),
                    demo_exit_clean=rc_clean, demo_exit_patched=rc_patched)
        meta["confirmed"] = bool(failed == clean_failed and rc_clean == 0 and
                                 rc_patched not in (0,) and
                                 "1424 passed" in tail)
    finally:
        sh(["git", "-C", wt, "checkout", "--", "src"])
        try:
            os.unlink(os.path.join(wt, "demo_seed.py"))
        except OSError:
            pass
    print(json.dumps(meta, indent=1))
    if not meta["confirmed"]:
        return 1
    d = os.path.join(SEEDED, sid)
    os.makedirs(d, exist_ok=True)
    shutil.copy(patch, os.path.join(d, "patch.diff"))
    shutil.copy(dem, os.path.join(d, "demo.py"))
    if os.path.exists(notes):
        shutil.copy(notes, os.path.join(d, "notes.md"))
    meta["ran"] = ("git worktree add <scratch> HEAD; pytest (baseline "
                   "command) before/after git apply patch.diff; demo.py "
                   "before/after; worktree removed")
    with open(os.path.join(d, "meta.json"), "w") as f:
        json.dump(meta, f, indent=1, sort_keys=True)
    return 0


def cmd_run(args):
    d = os.path.join(SEEDED, args.id)
    meta_p = os.path.join(d, "meta.json")
    meta = json.load(open(meta_p))
    props = args.props.split(",") if args.props else [meta["property"]]
    scratch = tempfile.mkdtemp(prefix="dsim-seedrun-")
    try:
        shutil.copytree("/repo/src", os.path.join(scratch, "src"),
                        ignore=shutil.ignore_patterns("__pycache__"))
        a = sh(["patch", "-s", "-p1", "-d", scratch, "-i",
                os.path.join(d, "patch.diff")])
        if a.returncode != 0:
            print("patch failed:", a.stdout, a.stderr)
            return 1
        env = dict(os.environ, VERIF_REPO_SRC=os.path.join(scratch, "src"),
                   VERIF_RUNS_SCALE=str(args.scale))
        res = meta.setdefault("checks", {})
        for prop in props:
            evf = os.path.join(VERIF, "evidence", prop + ".json")
            saved = open(evf, "rb").read() if os.path.exists(evf) else None
            p = subprocess.run([PY, os.path.join(VERIF, "bin", "check.py"),
                                "check", prop, "--tier", args.tier,
                                "--shrink-evals", "80", "--shrink-wall",
                                "30"], env=env, capture_output=True,
                               text=True)
            inv = [l.strip()[:220] for l in p.stdout.splitlines()
                   if l.startswith("  invariant=")]
            last = p.stdout.strip().splitlines()[-1] if p.stdout.strip() \
                else ""
            res[prop] = dict(rc=p.returncode, first=inv[:1],
                             summary=last[:220], tier=args.tier,
                             scale=args.scale)
            print("%s vs %s: rc=%d %s" % (args.id, prop, p.returncode,
                                          (inv[:1] or [last])[0][:200]))
            if saved is not None:
                open(evf, "wb").write(saved)
        meta["caught_by"] = sorted(p for p, r in res.items() if r["rc"] == 1)
        with open(meta_p, "w") as f:
            json.dump(meta, f, indent=1, sort_keys=True)
    finally:
        shutil.rmtree(scratch, ignore_errors=True)
    return 0


def main():
    ap = argparse.ArgumentParser()
    sub = ap.add_subparsers(dest="cmd")
    i = sub.add_parser("import")
    i.add_argument("prop")
    i.add_argument("n")
    i.add_argument("src")
    i.add_argument("--as-n", default=None)
    r = sub.add_parser("run")
    r.add_argument("id")
    r.add_argument("--props", default=None)
    r.add_argument("--scale", type=float, default=1.0)
    r.add_argument("--tier", default="quick")
    args = ap.parse_args()
    if args.cmd == "import":
        return cmd_import(args)
    if args.cmd == "run":
        return cmd_run(args)
    ap.print_help()
    return 2


if __name__ == "__main__":
    sys.exit(main())
