#!/bin/bash
# Soak: every claimed check's quick tier under many VERIF_SEED values on the
# current tree; prints one line per (seed, property) and every VIOLATION /
# HARNESS-ERROR line. usage: soak.sh <first_seed> <last_seed> [props...]
first=${1:-1}; last=${2:-20}; shift; shift
props=${@:-C02 C06 C08 C10 C11 C12 C14 C15 C17 C18}
here=$(cd "$(dirname "$0")/.." && pwd)
for seed in $(seq $first $last); do
  for p in $props; do
    out=$(VERIF_SEED=$seed timeout 1200 /venv/bin/python $here/bin/check.py check $p --tier quick 2>&1)
    rc=$?
    echo "seed=$seed prop=$p rc=$rc $(echo "$out" | tail -1 | cut -c1-160)"
    if [ $rc -ne 0 ]; then echo "$out" | grep -E "VIOLATION|HARNESS|invariant=" | cut -c1-600; fi
  done
done
