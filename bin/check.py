#!/venv/bin/python
"""Entry point: check <ID> --tier quick|thorough | replay <file> | digests | selftest."""
import os
import sys

sys.path.insert(0, os.path.dirname(os.path.dirname(os.path.abspath(__file__))))

from dsim import cli  # noqa: E402

if __name__ == "__main__":
    sys.exit(cli.main())
