#!/venv/bin/python
"""Regenerate /verif/MANIFEST.json from the check modules' metadata."""
import importlib
import json
import os
import sys

VERIF = os.path.dirname(os.path.dirname(os.path.abspath(__file__)))
sys.path.insert(0, VERIF)

PY = "/venv/bin/python /verif/bin/check.py"

NA_PURE = {
    "C01": "pure function of the rule arguments (caching off: each iterator owns its cursor; no shared state, clock, I/O or interleaving); deciding it is differential input testing against an RFC 5545 expander, not simulation",
    "C03": "pure arithmetic on immutable values; nothing to schedule, time or fault",
    "C04": "pure function of (zone data, instant) once a zone object exists; the ambient ways zones come to exist or keep state are simulated under C06/C08/C17/C18",
    "C05": "pure function of a zone's transition data; no schedule, clock or fault in it",
    "C07": "pure bytes-to-value function; the stream form is a single read() with nothing to interleave; the shared tzoffset factory it touches is simulated under C18",
    "C09": "pure function of two values",
    "C13": "pure text-to-rule mapping; no state survives a call and nothing is shared",
    "C16": "pure value algebra on immutable-by-convention objects",
    "C19": "finite pure function; exhaustive enumeration against an independent computus is the right tool, not simulation",
    "C20": "pure acceptance/rejection of byte strings; needs grammar-neighbourhood enumeration, i.e. input generation only",
}
ALL = ["C%02d" % i for i in range(1, 21)]
NOT_BUILT = "simulation target per DESIGN.md section 5; its check is not built yet at this commit, so nothing is claimed"

checks = []
claimed = []
for pid in ALL:
    path = os.path.join(VERIF, "checks", pid.lower() + ".py")
    if pid in NA_PURE or not os.path.exists(path):
        continue
    m = importlib.import_module("checks." + pid.lower())
    if not getattr(m, "CLAIM", True):
        continue
    claimed.append(pid)
    checks.append({
        "property_id": pid,
        "quick_cmd": "%s check %s --tier quick" % (PY, pid),
        "thorough_cmd": "%s check %s --tier thorough" % (PY, pid),
        "evidence_file": "/verif/evidence/%s.json" % pid,
        "replay_cmd_template": PY + " replay {path}",
        "engine": "dsim",
        "level_claimed": {"category": "exploration",
                          "text": m.LEVEL_TEXT,
                          "design_ref": "DESIGN.md section 5 (%s)" % pid},
        "level_note": m.LEVEL_NOTE,
        "technique": m.TECHNIQUE,
    })

na = []
for pid in ALL:
    if pid in claimed:
        continue
    na.append({"property_id": pid, "reason": NA_PURE.get(pid, NOT_BUILT)})

manifest = {
    "version": 1,
    "setup_cmd": "/venv/bin/python -m compileall -q /verif/dsim /verif/checks /verif/models /verif/bin && /venv/bin/python /verif/bin/check.py selftest --n 6",
    "hooks": {
        "guard": "DATEUTIL_VERIF",
        "enable": "no source hooks are needed: every seam is installed from outside (six.moves._thread shim before dateutil is imported, sys.monitoring LINE events, rebinding of module globals datetime/time/open/os in dateutil modules, tz.TZPATHS, real TZ+tzset); checks import dateutil from /repo/src and compile it fresh",
        "baseline_off_cmd": "/venv/bin/python /verif/bin/baseline_check.py",
        "source_commits": [],
        "add_only": True,
    },
    "engines": [{
        "name": "dsim", "path": "/verif/dsim", "serves_properties": claimed,
        "kind_free_text": "deterministic simulation with fault injection: one seed decides the generated operation/fault sequence and every scheduling decision; real threads parked and released one at a time at sys.monitoring line events and simulated-lock operations; simulated clock, process TZ events, in-memory file system and faulty streams; fork-per-run isolation; ddmin shrinker; replay files confirmed in a fresh interpreter",
    }],
    "checks": checks,
    "not_applicable": na,
    "notes": "See DESIGN.md. Exit codes of every check: 0 held on everything explored (KNOWN-FINDING lines allowed), 1 with a VIOLATION line, 2 with a HARNESS-ERROR line (timeouts, nondeterminism, internal errors: never reported as a pass). Defects repaired in /repo are 'fix:' commits listed in known_findings.json as fixed entries.",
}
with open(os.path.join(VERIF, "MANIFEST.json"), "w") as f:
    json.dump(manifest, f, indent=1)
print("claimed:", claimed)
