"""Sensitivity catalogue: small source mutations, each breaking one claimed
property while (mostly) keeping the existing test-suite green. Each entry:
  id, file (under src/dateutil), old, new (exact, unique text), expect (the
  properties whose quick check should raise VIOLATION), note.
Applied only to scratch copies outside /repo and /verif (bin/sensrun.py).
"""

M = []


def m(id, file, old, new, expect, note):
    M.append(dict(id=id, file=file, old=old, new=new, expect=expect,
                  note=note))


# -- rrule.py: the shared cache (C10, C11, C12, C17) -------------------------
m("R01", "rrule.py",
  "                finally:\n                    release()\n",
  "                finally:\n                    pass\n",
  ["C11", "C17"], "cache mutex never released after a fill")
m("R02", "rrule.py",
  "        acquire = self._cache_lock.acquire\n"
  "        release = self._cache_lock.release\n",
  "        acquire = release = lambda: None\n",
  ["C11"], "no mutual exclusion around the shared generator")
m("R03", "rrule.py",
  "        while i < len(cache):\n            yield cache[i]\n",
  "        while i < len(cache) - 1:\n            yield cache[i]\n",
  ["C11"], "tail loop drops the last element for an iterator that was "
  "overtaken")
m("R04", "rrule.py",
  "                    current = self._cache is cache\n",
  "                    current = True\n",
  ["C10"], "stale iterator publishes completion into the new cache")
m("R05", "rrule.py",
  "        if version == self._version:\n",
  "        if True:\n",
  ["C10"], "stale generator publishes its total as the set's length")
m("R06", "rrule.py",
  "    @_invalidates_cache\n    def exdate(self, exdate):",
  "    def exdate(self, exdate):",
  ["C10"], "exdate() does not invalidate the cache")
m("R07", "rrule.py",
  "            if not lastdt or lastdt != ritem.dt:\n",
  "            if True:\n",
  ["C10"], "no duplicate suppression in the k-way merge")
m("R08", "rrule.py",
  "                    if exlist and exlist[0] is exitem:\n"
  "                        heapq.heapreplace(exlist, exitem)\n",
  "                    pass\n",
  ["C10"], "exclusion heap not re-ordered after advancing a cursor")
m("R09", "rrule.py",
  "                    (start is not None and start < 0) or\n",
  "",
  ["C12"], "negative slice start goes to islice")
m("R10", "rrule.py",
  "        if inc:\n            for i in gen:\n                if i > dt:\n"
  "                    break\n                last = i\n",
  "        if inc:\n            for i in gen:\n                if i >= dt:\n"
  "                    break\n                last = i\n",
  ["C12"], "before(inc=True) excludes dt itself")
m("R11", "rrule.py",
  "                    if n > count:\n",
  "                    if n >= count:\n",
  ["C12"], "xafter yields one element too few")
m("R12", "rrule.py",
  "        new_kwargs.update(self._original_rule)\n"
  "        new_kwargs.update(kwargs)\n",
  "        new_kwargs.update(kwargs)\n"
  "        new_kwargs.update(self._original_rule)\n",
  ["C12"], "replace() lets the original by-rules override the named ones")
m("R13", "rrule.py",
  "                if i >= before:\n                    break\n"
  "                elif not started:\n                    if i > after:\n",
  "                if i >= before:\n                    break\n"
  "                elif not started:\n                    if i >= after:\n",
  ["C12"], "between(inc=False) includes the lower bound")
m("R14", "rrule.py",
  "        if self._cache_complete:\n            return self._cache[item]\n",
  "        if self._cache_complete and not isinstance(item, slice):\n"
  "            return self._cache[item]\n"
  "        elif self._cache_complete:\n"
  "            return self._cache[item.start:item.stop]\n",
  ["C12", "C11"], "slice step ignored once the cache is complete")

# -- zone factories (C18) ------------------------------------------------------
m("F01", "tz/_factories.py",
  "        with cls._cache_lock:\n"
  "            instance = cls.__instances.get(key, None)\n"
  "            if instance is None:\n"
  "                instance = cls.__instances.setdefault(key,\n"
  "                                                      cls.instance(name, offset))\n"
  "\n",
  "        instance = cls.__instances.get(key, None)\n"
  "        if instance is None:\n"
  "            instance = cls.__instances.setdefault(key,\n"
  "                                                  cls.instance(name, offset))\n"
  "\n"
  "        with cls._cache_lock:\n",
  ["C18"], "tzoffset lookup-or-create outside the mutex")
m("F02", "tz/_factories.py",
  "        key = (s, posix_offset)\n",
  "        key = s\n",
  ["C18"], "tzstr cache key ignores posix_offset")
m("F03", "tz/_factories.py",
  "            key = (name, offset)\n",
  "            key = (None, offset)\n",
  ["C18"], "tzoffset cache key ignores the name for int offsets")
m("F04", "tz/tz.py",
  "                    if not (name is None\n"
  "                            or isinstance(rv, tzlocal_classes)\n"
  "                            or rv is None):\n",
  "                    if not (name is None\n"
  "                            or rv is None):\n",
  ["C18"], "gettz caches local zones")
m("F05", "tz/tz.py",
  "                if len(self.__strong_cache) > self.__strong_cache_size:\n"
  "                    self.__strong_cache.popitem(last=False)\n",
  "                pass\n",
  ["C18"], "gettz strong cache never evicts")
m("F06", "tz/tz.py",
  "                self.__instances = weakref.WeakValueDictionary()\n"
  "                self.__strong_cache.clear()\n",
  "                self.__instances = weakref.WeakValueDictionary()\n",
  ["C18"], "cache_clear leaves the strong cache populated")
m("F07", "tz/tz.py",
  "        def __call__(self, name=None):\n"
  "            with self._cache_lock:\n"
  "                rv = self.__instances.get(name, None)\n",
  "        def __call__(self, name=None):\n"
  "            rv = self.__instances.get(name, None)\n"
  "            if rv is not None:\n"
  "                return rv\n"
  "            with self._cache_lock:\n"
  "                rv = None\n",
  ["C18"], "gettz fast path, then create without re-checking under the lock")

# -- tzfile / archive (C06) ------------------------------------------------------
m("Z01", "tz/tz.py",
  "            out.trans_list.append(out.trans_list_utc[i] +\n"
  "                                  min(prevoffset, offset))\n",
  "            out.trans_list.append(out.trans_list_utc[i] +\n"
  "                                  max(prevoffset, offset))\n",
  ["C06"], "wall-clock transition uses the larger adjacent offset")
m("Z02", "tz/tz.py",
  "        if idx is None or idx < 0:\n            return idx\n",
  "        if idx is None or idx <= 0:\n            return idx\n",
  ["C06"], "fold at the first transition not resolved")
m("Z03", "tz/tz.py",
  "            data = fileobj.read(size)\n"
  "            while len(data) < size:\n",
  "            data = fileobj.read(size)\n"
  "            while False:\n",
  ["C06"], "short reads accepted")
m("Z04", "tz/tz.py",
  "        idx = bisect.bisect_right(trans_list, timestamp)\n",
  "        idx = bisect.bisect_left(trans_list, timestamp)\n",
  ["C06"], "an instant equal to a transition belongs to the period before")
m("Z05", "zoneinfo/__init__.py",
  "                links = {zl.name: self.zones[zl.linkname]\n",
  "                links = {zl.name: tzfile(tf.extractfile(\n"
  "                             tf.getmember(zl.linkname)), filename=zl.name)\n",
  ["C06"], "archive links get their own copy of the zone")
m("Z06", "tz/tz.py",
  "            with fileobj as file_stream:\n"
  "                tzobj = self._read_tzfile(file_stream)\n",
  "            file_stream = fileobj.__enter__()\n"
  "            tzobj = self._read_tzfile(file_stream)\n"
  "            fileobj.__exit__(None, None, None)\n",
  ["C06"], "file handle leaks when decoding raises")
m("Z07", "tz/tz.py",
  "                for tti in out.ttinfo_list:\n"
  "                    if not tti.isdst:\n"
  "                        out.ttinfo_before = tti\n"
  "                        break\n",
  "                for tti in out.ttinfo_list[:1]:\n"
  "                    if not tti.isdst:\n"
  "                        out.ttinfo_before = tti\n"
  "                        break\n",
  ["C06"], "before the first transition: type 0 even when it is daylight")

# -- parser (C02, C14, C15) --------------------------------------------------------
m("P01", "parser/_parser.py",
  "            if year >= self._year + 50:  # if too far in future\n",
  "            if year > self._year + 50:  # if too far in future\n",
  ["C02"], "two-digit-year pivot off by one")
m("P02", "parser/_parser.py",
  "        except (IndexError, ValueError, InvalidOperation):\n",
  "        except (ValueError, InvalidOperation):\n",
  ["C14"], "IndexError escapes from parse()")
m("P03", "parser/_parser.py",
  "        res, skipped_tokens = self._parse(timestr, **kwargs)\n",
  "        if isinstance(timestr, str) and \\\n"
  "                getattr(self, '_last', (None,))[0] == timestr:\n"
  "            res, skipped_tokens = self._last[1]\n"
  "        else:\n"
  "            res, skipped_tokens = self._parse(timestr, **kwargs)\n"
  "            self._last = (timestr, (res, skipped_tokens))\n",
  ["C14", "C02"], "last result memoised on the parser, keyed by text only")
m("P04", "parser/_parser.py",
  "            if cday > monthrange(cyear, cmonth)[1]:\n"
  "                repl['day'] = monthrange(cyear, cmonth)[1]\n",
  "            if cday > monthrange(cyear, cmonth)[1]:\n"
  "                repl['day'] = 28\n",
  ["C15"], "default day clipped to 28 instead of the month's last day")
m("P05", "parser/_parser.py",
  "        if (callable(tzinfos) or (tzinfos and res.tzname in tzinfos)):\n",
  "        if (callable(tzinfos) or (tzinfos and res.tzname in tzinfos\n"
  "                                  and res.tzname not in time.tzname)):\n",
  ["C15"], "local names take precedence over tzinfos")
m("P06", "parser/_parser.py",
  "        elif res.tzoffset == 0:\n            aware = naive.replace(tzinfo=tz.UTC)\n",
  "        elif res.tzoffset == 0:\n"
  "            aware = naive.replace(tzinfo=tz.tzoffset(None, 0))\n",
  ["C15"], "zero offsets give a fixed-offset zone instead of UTC")
m("P07", "parser/_parser.py",
  "                ymd.append(value_repr if value_repr.isdigit() else value)\n",
  "                ymd.append(value)\n",
  ["C02"], "zero-padded year below 100 goes through the pivot again")
m("P08", "parser/_parser.py",
  "            naive = naive + relativedelta.relativedelta(weekday=res.weekday)\n",
  "            naive = naive + relativedelta.relativedelta(\n"
  "                days=+1, weekday=res.weekday)\n",
  ["C15"], "a bare weekday equal to the default's weekday moves a week on")
m("P09", "parser/_parser.py",
  "        if default is None:\n"
  "            default = datetime.datetime.now().replace(hour=0, minute=0,\n"
  "                                                      second=0, microsecond=0)\n",
  "        if default is None:\n"
  "            default = getattr(self, '_today', None)\n"
  "            if default is None:\n"
  "                default = self._today = datetime.datetime.now().replace(\n"
  "                    hour=0, minute=0, second=0, microsecond=0)\n",
  ["C15", "C14"], "'today' captured once per parser instead of per call")

# -- POSIX rules / iCalendar (C08, C17) ------------------------------------------------
m("T01", "parser/_parser.py",
  "                        if x.week == 5:\n"
  "                            x.week = -1\n",
  "                        pass\n",
  ["C08"], "week 5 not read as 'last'")
m("T02", "parser/_parser.py",
  "                        x.jyday = int(l[i])\n",
  "                        x.yday = int(l[i])\n",
  ["C08"], "Jn treated like n")
m("T03", "tz/tz.py",
  "        self._std_offset = datetime.timedelta(seconds=-time.timezone)\n",
  "        self._std_offset = datetime.timedelta(seconds=-time.altzone)\n",
  ["C08"], "tzlocal takes altzone as the standard offset")
m("T04", "tz/tz.py",
  "            kwargs[\"seconds\"] -= delta.seconds + delta.days * 86400\n",
  "            pass\n",
  ["C08"], "end rule not converted to standard time")
m("T05", "tz/tz.py",
  "        if res.stdabbr in (\"GMT\", \"UTC\") and not posix_offset:\n",
  "        if res.stdabbr in (\"GMT\", \"UTC\") and posix_offset:\n",
  ["C08"], "GMT+h sign rule inverted")
m("T06", "tz/_common.py",
  "            isdst = not dstoff <= dt < dston\n",
  "            isdst = not dstoff < dt <= dston\n",
  ["C08", "C17"], "southern-hemisphere boundaries off by one instant")
m("T07", "tz/tz.py",
  "            self._cachedate.insert(0, (dt, self._fold(dt)))\n",
  "            self._cachedate.insert(0, (dt, 0))\n",
  ["C17"], "iCalendar lookup cache stores entries without the fold")
m("T08", "tz/tz.py",
  "            self._cachecomp.insert(0, lastcomp)\n",
  "            self._cachecomp.append(lastcomp)\n",
  ["C17"], "iCalendar lookup cache lists out of step")
m("T09", "tz/tz.py",
  "        if comp.tzoffsetdiff < ZERO and self._fold(dt):\n",
  "        if comp.tzoffsetdiff < ZERO:\n",
  ["C17"], "second occurrence of an ambiguous hour taken for every fold")
m("T10", "tz/tz.py",
  "                    if name == \"TZID\":\n"
  "                        if parms:\n",
  "                    if name == \"TZID\" or name == \"X-TZID\":\n"
  "                        if parms:\n",
  [], "control: harmless change (no check should fire)")
